------------------------------- MODULE MCConc -------------------------------
(* Bounded instance of LevelConc: constants only, no behaviour is defined here. *)
EXTENDS LevelConc

O(i, kd, v, h, thr, amt, au, ts) ==
  [id |-> i, kind |-> kd, vis |-> v, hid |-> h, thr |-> thr, amt |-> amt, auto |-> au,
   ts |-> ts, side |-> "Buy", px |-> 100, par |-> "GTC"]
S(i, v)        == O(i, "Standard", v, 0, 0, -1, FALSE, i)
I(i, v, h)     == O(i, "Iceberg", v, h, 0, -1, FALSE, i)
Rv(i, v, h, thr, amt, au) == O(i, "Reserve", v, h, thr, amt, au, i)
Pg(i, v)       == O(i, "Pegged", v, 0, 0, -1, FALSE, i)

Add(o)      == [op |-> "add", o |-> o]
Match(q)    == [op |-> "match", q |-> q, taker |-> 90]
Cancel(i)   == [op |-> "cancel", id |-> i]
Amend(i, q) == [op |-> "amend", id |-> i, q |-> q]
Read        == [op |-> "read"]

MCIds   == 1..4
MCPrice == 100

Book3 == << S(1, 3), I(2, 2, 3), Rv(3, 2, 2, 1, 1, TRUE) >>

\* 2 threads x 2 calls
Scen2 == <<
  [init |-> Book3, progs |-> << <<Match(2), Add(S(4, 2))>>, <<Amend(1, 1), Cancel(2)>> >>],
  [init |-> Book3, progs |-> << <<Match(4)>>, <<Cancel(1), Read>> >>],
  [init |-> Book3, progs |-> << <<Amend(1, 1)>>, <<Match(4)>> >>]
>>

\* 3 threads x 2 calls (the prototype program)
Scen3 == <<
  [init |-> Book3, progs |-> << <<Match(2), Add(S(4, 2))>>, <<Amend(1, 1), Cancel(2)>>, <<Match(3), Read>> >>]
>>
=============================================================================
