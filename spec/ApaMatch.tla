------------------------------ MODULE ApaMatch ------------------------------
(***************************************************************************)
(* Integer-only, typed copy of the per-order rule for Apalache, so that    *)
(* C05 is checked over ALL non-negative integers (in particular all 64-bit *)
(* values), not only the TLC grid.  TLC cannot represent 2^64-1; Apalache  *)
(* can.  The copy is tied to Orders.tla by ApaEquiv.tla (TLC checks on the *)
(* whole grid, and on perturbed results, that AMatch = MatchAgainst and    *)
(* ARule = RuleC05).                                                       *)
(*                                                                         *)
(* order:  [kind, vis, hid, thr, amt (-1 = None), auto]                    *)
(* result: [c, some (order survives), uvis, uhid, hr, rem]                 *)
(***************************************************************************)
EXTENDS Integers

(*
  @typeAlias: ord = {kind: Str, vis: Int, hid: Int, thr: Int, amt: Int, auto: Bool};
  @typeAlias: res = {c: Int, some: Bool, uvis: Int, uhid: Int, hr: Int, rem: Int};
*)
ApaMatch_aliases == TRUE

AKinds == {"Standard", "Iceberg", "PostOnly", "TrailingStop", "Pegged", "MarketToLimit", "Reserve"}
AHiddenKinds == {"Iceberg", "Reserve"}
CONSTANT
  \* @type: Int;
  U64MAX     \* 2^64 - 1 (bound in ApaMatchMC.tla; TLC cannot parse that literal)

\* @type: (Int, Int) => Int;
AMin(a, b) == IF a <= b THEN a ELSE b

\* @type: (Int, Bool, Int, Int, Int, Int) => $res;
AR(c, some, uvis, uhid, hr, rem) == [c |-> c, some |-> some, uvis |-> uvis, uhid |-> uhid, hr |-> hr, rem |-> rem]

\* @type: ($ord) => Int;
AHid(o) == IF o.kind \in AHiddenKinds THEN o.hid ELSE 0

\* @type: ($ord, Int) => $res;
AMatch(o, q) ==
  IF o.kind = "Iceberg" THEN
     IF o.vis <= q
     THEN IF o.hid > 0
          THEN LET refresh == AMin(o.hid, o.vis) IN AR(o.vis, TRUE, refresh, o.hid - refresh, refresh, q - o.vis)
          ELSE AR(o.vis, FALSE, 0, 0, 0, q - o.vis)
     ELSE AR(q, TRUE, o.vis - q, o.hid, 0, 0)
  ELSE IF o.kind = "Reserve" THEN
     LET safeThr == IF o.auto /\ o.thr = 0 THEN 1 ELSE o.thr
         repl    == AMin(IF o.amt = -1 THEN 80 ELSE o.amt, o.hid)
     IN IF o.vis <= q
        THEN IF o.hid > 0 /\ o.auto
             THEN AR(o.vis, TRUE, repl, o.hid - repl, repl, q - o.vis)
             ELSE AR(o.vis, FALSE, 0, 0, 0, q - o.vis)
        ELSE IF (o.vis - q) < safeThr /\ o.hid > 0 /\ o.auto
             THEN AR(q, TRUE, o.vis - q + repl, o.hid - repl, repl, 0)
             ELSE AR(q, TRUE, o.vis - q, o.hid, 0, 0)
  ELSE \* Standard and the fall-through arm (repaired tree)
     IF o.vis <= q THEN AR(o.vis, FALSE, 0, 0, 0, q - o.vis)
                   ELSE AR(q, TRUE, o.vis - q, 0, 0, 0)

\* @type: ($ord, Int, $res) => Bool;
ARule(o, q, r) ==
  LET exhausted == o.vis <= q
      nv        == o.vis - r.c
      thr1      == IF o.thr = 0 THEN 1 ELSE o.thr
      amount    == AMin(IF o.amt = -1 THEN 80 ELSE o.amt, AHid(o))
      wants     == (exhausted \/ nv < thr1) /\ o.auto /\ o.hid > 0
  IN
  /\ r.c = AMin(q, o.vis)
  /\ r.rem = q - r.c
  /\ r.some => /\ r.uvis + r.uhid = o.vis + AHid(o) - r.c
               /\ r.hr = AHid(o) - r.uhid
               /\ r.hr >= 0 /\ r.uvis >= 0 /\ r.uhid >= 0
               /\ r.uvis + r.uhid <= U64MAX
  /\ ~r.some => r.hr = 0
  /\ IF o.kind = "Iceberg"
     THEN IF exhausted
          THEN IF o.hid = 0 THEN ~r.some
               ELSE r.some /\ r.uvis <= o.vis /\ r.uvis = r.hr
          ELSE r.some /\ r.uvis = nv /\ r.hr = 0
     ELSE IF o.kind = "Reserve"
     THEN IF wants THEN r.some /\ r.hr = amount /\ r.uvis = nv + amount
          ELSE IF exhausted THEN ~r.some ELSE r.some /\ r.uvis = nv /\ r.hr = 0
     ELSE IF exhausted THEN ~r.some ELSE r.some /\ r.uvis = nv /\ r.hr = 0 /\ r.uhid = 0

VARIABLES
  \* @type: $ord;
  o,
  \* @type: Int;
  q

\* every order with non-negative quantities and displayed + hidden <= u64::MAX, every incoming quantity
Init ==
  \E k \in AKinds, v \in Nat, h \in Nat, t \in Nat, a \in Int, au \in BOOLEAN, qq \in Nat :
    /\ a >= -1
    /\ v + h <= U64MAX /\ t <= U64MAX /\ a <= U64MAX /\ qq <= U64MAX
    /\ (k \notin AHiddenKinds => h = 0)
    /\ o = [kind |-> k, vis |-> v, hid |-> h, thr |-> t, amt |-> a, auto |-> au]
    /\ q = qq
Next == UNCHANGED <<o, q>>
Inv == ARule(o, q, AMatch(o, q))
\* the result stays inside u64 (no wrap inside the rule itself)
InvRange == LET r == AMatch(o, q) IN r.c >= 0 /\ r.rem >= 0 /\ r.c <= U64MAX /\ r.rem <= U64MAX
=============================================================================
