"""C09 (package faults), C10 (round trips, derived aggregates, listing), C11 (restored level trades alike)."""
import os, json
from common import *
import scen
from level_checks import classify_tv, seq_cfg, KF_WHAT, transformed

KF_WHAT.update({"KF-C11-1": "the snapshot lists orders by timestamp, not by queue position: the restored level queues them in a different order",
                "KF-C11-2": "the original level carried a stale ticket that the restored level does not have"})
PATHS = ["snapshot", "package", "json", "package_forged", "json_forged", "from_ref", "data", "data_json", "text"]


def snapmc(work, invs, subst=None):
    txt = open(os.path.join(SPEC, "mc", "SnapMC.cfg")).read()
    import re
    txt = re.sub(r"(?m)^\s*INVARIANT\s+\S+\s*$\n?", "", txt)
    for k, v in (subst or {}).items():
        txt = re.sub(r"(?m)^(\s*%s\s*(=|<-)\s*).*$" % re.escape(k), lambda m: m.group(1) + v, txt)
    txt += "\n" + "\n".join("INVARIANT " + i for i in invs) + "\n"
    p = work.path("snapmc-%s.cfg" % invs[0])
    open(p, "w").write(txt)
    return p


def contents(rng, n):
    """level contents for the fault driver: all kinds, both id formats, boundary numbers"""
    out = []
    big = 18446744073709551615
    out.append({"price": 100, "orders": []})
    out.append({"price": 100, "orders": [scen.S(1, 10, ts=5), scen.R(2, 3, 4, 1, 2, True, ts=1)], "matches": [2]})
    out.append({"price": big, "orders": [scen.order(1, "Standard", 1, ts=0, par="GTD-18446744073709551615"),
                                           scen.order(1000001, "Iceberg", 9007199254740993, 1, ts=big)]})
    allk = [scen.order(i + 1, k, 3 + i, 2 if k in ("Iceberg", "Reserve") else 0, 1, -1 if i % 2 else 5, True, ts=7 - i,
                       side="Sell" if i % 2 else "Buy") for i, k in enumerate(scen.KINDS)]
    out.append({"price": 100, "orders": allk, "matches": [4], "stride": 2})
    # a reserve order without a replenish amount (the one optional field of the format: absent reads as null)
    out.append({"price": 100, "orders": [scen.R(1, 2, 3, 1, -1, True, ts=3)]})
    # ... and one whose replenish amount is the library's default (80) given explicitly: it is a different content
    out.append({"price": 100, "orders": [scen.R(1, 2, 90, 1, 80, True, ts=3), scen.R(2, 1, 5, 0, 0, False, ts=4)], "stride": 2})
    # a level at price 0 holding orders of size 0 with timestamp 0; orders whose own price is not the level's
    out.append({"price": 0, "orders": [scen.S(1, 0, ts=0), scen.I(2, 0, 0, ts=0)]})
    out.append({"price": 100, "orders": [dict(scen.S(1, 2, ts=1), px=99), dict(scen.I(1000002, 1, 1, ts=1), px=0)], "stride": 2})
    for _ in range(n):
        k = rng.range(1, 4)
        ids = list(range(1, 9)) + [1000001, 1000002]
        os_ = []
        for j in range(k):
            i = ids.pop(rng.below(len(ids)))
            os_.append(scen.rand_order(rng, i, rng.range(1, 5)))
        out.append({"price": rng.choice([1, 100, 99999]), "orders": os_, "matches": [rng.choice([1, 2, 5])] if rng.chance(1, 2) else [],
                    "stride": rng.choice([1, 2, 3])})
    return out


def check_c09(prop, tier):
    res = Result(prop, tier, "fault_enumeration" if False else "model_checking")
    work = Work(prop)
    rng = Rng(seed() * 2654435761 + 9)
    try:
        res.add(build_s=round(build_harness(), 1))
        cfg = snapmc(work, ["Inv_C09", "Inv_C09nonvac"], {"BothLen": "0"} if tier == "quick" else {"BothLen": "0", "BuildLen": "4"})
        r = require_ok(tlc("SnapMC", cfg, work, workers=8, timeout=3000), "model check of C09")
        res.add(states=r["distinct"], transitions=r["generated"], checker_cmd="tlc SnapMC INVARIANT Inv_C09 Inv_C09nonvac (every listing x every single and double structural fault)")
        cs = contents(rng, 4 if tier == "quick" else 150)
        h = run_harness("snap", cs, work, "faults", timeout=3000)
        s = tv(h["trace"], "TraceSnapFault", "TraceSnapFault", work, timeout=3000)
        res.add(traces_validated_against_impl=s["packages"], faults_validated=s["faults"], truncation_points=s["truncations"],
                restores_accepted_with_same_content=s["accepted"], fault_kinds=s["kinds"])
        if s["bad"]:
            bad = read_trace_lines(h["trace"])[s["firstbad"] - 1]
            pkg = [l for l in read_trace_lines(h["trace"]) if l["k"] == "pkg" and l["pk"] == bad.get("pk")]
            res.violation("a faulted snapshot package was not handled as specified (%d lines): %s" % (s["bad"], json.dumps({k: bad.get(k) for k in ("f", "pos", "arg", "res", "same", "trunc")})),
                          {"driver": "snap", "content": cs[bad.get("pk", 0)], "fault": {k: bad.get(k) for k in ("f", "pos", "arg", "trunc", "res", "same", "got")},
                           "package_text": pkg[0]["text"] if pkg else None})
        res.add(faults_that_must_be_rejected=s["musterr"])
        if s["drift"] and not res.violations:
            dl = read_trace_lines(h["trace"])[s["firstdrift"] - 1]
            res.downgrade("%d faulted packages are not handled as the model of the pinned code says (restore ok <=> stored checksum = SHA-256 of the content JSON; re-encodings still restore), first: %s"
                          % (s["drift"], json.dumps({k: dl.get(k) for k in ("f", "pos", "arg", "res", "same")})),
                          s["faults"], s["musterr"],
                          "every enumerated fault judged on the text alone (generic JSON parse): not JSON / other version / checksum or content no longer the original's => error; ok => same content; every prefix => error")
        for l in read_trace_lines(h["trace"])[1:4]:
            res.sample({k: l.get(k) for k in ("f", "pos", "arg", "res", "same")})
        res.assumptions += ["SHA-256 modelled as an injective function (collision resistance)", "byte faults enumerated at every offset (stride 1-3 for the larger contents): substitution by 3 bytes incl. a non-ASCII lead byte, deletion, 3 insertions, every truncation point"]
        return res.finish()
    finally:
        work.cleanup()


def with_restores(calls, rng, every_path):
    out = list(calls)
    ops = []
    paths = PATHS if every_path else [rng.choice(PATHS), rng.choice(PATHS)]
    for v in paths:
        ops.append({"op": "restore", "via": v, "lie": False})
        ops.append({"op": "restore", "via": v, "lie": True})               # overstated aggregate figures
        ops.append({"op": "restore", "via": v, "lie": True, "low": True})  # understated (zero) figures
        # ONE figure falsified, the other two true (a right count with wrong quantities, and so on)
        ops.append({"op": "restore", "via": v, "lie": True, "only": rng.choice(["vis", "hid", "cnt"]), "low": rng.chance(1, 3)})
    # restore points: at the end and at a random earlier point
    k = rng.below(len(out) + 1)
    return out[:k] + ops[:6] + out[k:] + ops


def check_c10(prop, tier):
    res = Result(prop, tier, "model_checking")
    work = Work(prop)
    rng = Rng(seed() * 40503 + 10)
    try:
        res.add(build_s=round(build_harness(), 1))
        cfg = snapmc(work, ["Inv_C10", "Inv_C10list", "Inv_C10some"], {"BothLen": "0"} if tier == "quick" else {"BothLen": "0", "BuildLen": "4"})
        r = require_ok(tlc("SnapMC", cfg, work, workers=8, timeout=3000), "model check of C10")
        res.add(states=r["distinct"], transitions=r["generated"], checker_cmd="tlc SnapMC INVARIANT Inv_C10 Inv_C10list (every listing, honest and lying aggregates)")
        # model histories of the level, each followed by every restore path
        cfgr = seq_cfg(work, "mcr", "MCSeq_quick", ["Inv_C01"], subst={"MaxLen": "3" if tier == "quick" else "4"}, emit=True)
        rr = require_ok(tlc("MCSeq", cfgr, work, workers=8, timeout=3000), "history generation")
        replays = rr["prints"].get("EDGE", [])
        cap = 250 if tier == "quick" else 5000
        if len(replays) > cap:
            step = len(replays) // cap + 1
            replays = replays[rng.below(step)::step]
        hs = [scen.seq_scenario(with_restores(rp["calls"], rng, True)) for rp in replays]
        n = 120 if tier == "quick" else 3000
        for i in range(n):
            calls = scen.seq_history(rng, rng.range(8, 30), nids=rng.choice([3, 6]), monotone_ts=(i % 2 == 0), zero_ok=(i % 3 != 0), vary_px=(i % 4 == 1))
            sc = scen.seq_scenario(with_restores(calls, rng, False))
            if i % 3 == 2:
                sc = transformed(sc, i // 3, scale=False)       # timestamps beyond 2^53 / at the 64-bit limit, ULID ids
            hs.append(sc)
        h = run_harness("level", hs, work, "tv", timeout=3000)
        s = tv(h["trace"], "MCTraceSeq", "TraceSeq", work, timeout=6000)
        res.add(traces_validated_against_impl=s["execs"], restores_checked=s["restores"], calls_validated=s["calls"], tv_drifts=len(s["drifts"]),
                replayed_model_behaviours=len(replays))
        classify_tv(res, s, {"C10"}, set(), lambda i: hs[i], "recorded history with restores", spec="seq")
        if s["drifts"]:
            res.downgrade("line=%d scenario=%d: a call result or the layout of a restored queue is not the model's" % (s["drifts"][0]["line"], s["drifts"][0]["sc"]),
                          s["restores"], s["execs"], "restores of recorded histories judged by C10's own predicate (same price, orders, derived aggregates; listing once each in timestamp order)")
        res.sample({"history_with_restores": hs[0]["threads"][0][:10]})
        res.assumptions += ["external data has unique ids", "restore paths: from_snapshot, From<&Snapshot>, from_snapshot_package, from_snapshot_json, TryFrom<PriceLevelData>, serde JSON, Display/FromStr; each with honest and with falsified aggregate figures"]
        return res.finish()
    finally:
        work.cleanup()


def check_c11(prop, tier):
    res = Result(prop, tier, "model_checking")
    work = Work(prop)
    rng = Rng(seed() * 69069 + 11)
    try:
        res.add(build_s=round(build_harness(), 1))
        cfg = snapmc(work, ["Inv_C11"], None if tier == "quick" else {"BothLen": "3"})
        r = require_ok(tlc("SnapMC", cfg, work, workers=8, timeout=6000), "model check of C11")
        res.add(states=r["distinct"], transitions=r["generated"], checker_cmd="tlc SnapMC INVARIANT Inv_C11 (lock-step of original and restored level)")
        for inv, what in (("Inv_C11raw", "listing-by-timestamp"), ("Inv_C11stale", "stale-ticket")):
            cw = snapmc(work, [inv])
            rw = tlc("SnapMC", cw, work, workers=8, timeout=3000)
            if inv not in rw["violated"]:
                raise ToolError("the model no longer contains the %s deviation: the C11 classification would be vacuous" % what)
        hs = []
        n = 200 if tier == "quick" else 5000
        for i in range(n):
            build = scen.seq_history(rng, rng.range(4, 18), nids=rng.choice([3, 5]), monotone_ts=(i % 2 == 0), zero_ok=(i % 2 == 1), reads=False, vary_px=(i % 4 == 0))
            cont = scen.seq_history(rng, rng.range(3, 14), nids=5, monotone_ts=True, zero_ok=False, reads=(i % 3 == 0))
            sc = scen.seq_scenario(build + [{"op": "fork", "via": rng.choice(PATHS)}] + cont, budget=6000)
            if i % 3 == 2:
                sc = transformed(sc, i // 3, scale=False)
            hs.append(sc)
        h = run_harness("level", hs, work, "tv", timeout=3000)
        s = tv(h["trace"], "MCTraceSeq", "TraceSeq", work, timeout=6000)
        res.add(traces_validated_against_impl=s["execs"], lockstep_calls=s["lockstep"], lockstep_differences=s["lockdiff"], tv_drifts=len(s["drifts"]))
        classify_tv(res, s, {"C11"}, {"KF-C11-1", "KF-C11-2"}, lambda i: hs[i], "lock-step of original and restored level", spec="seq")
        if s["drifts"]:
            res.downgrade("line=%d scenario=%d: a call result or the layout of a restored queue is not the model's" % (s["drifts"][0]["line"], s["drifts"][0]["sc"]),
                          s["lockstep"], s["execs"], "lock-step continuations of original and restored level compared call by call")
        res.sample({"history": hs[0]["threads"][0][:12]})
        res.assumptions += ["snapshot taken at a quiescent point (single thread)", "equivalence is on makers, quantities, update results; transaction ids and wall-clock fields are not compared"]
        return res.finish()
    finally:
        work.cleanup()
