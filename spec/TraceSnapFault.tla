--------------------------- MODULE TraceSnapFault ---------------------------
(***************************************************************************)
(* C09 on recorded restores of faulted package texts (harness `snap`).     *)
(* Each line is the outcome of the real from_snapshot_json /                *)
(* from_snapshot_package on one faulted text:  res in {ok, err, panic},    *)
(* same = (content of the restored level = content that was snapshotted).  *)
(* The specification (Snapshot.tla) says: Restore succeeds iff version is  *)
(* supported and checksum = H(content); hence                              *)
(*   - a restore that succeeds yields exactly the snapshotted content,     *)
(*   - every proper prefix is an error,                                    *)
(*   - every single structural edit of Snapshot!Faults is an error,        *)
(*   - content-preserving re-encodings still restore,                      *)
(*   - the outcome alphabet is {ok, err}: no panic,                        *)
(*   - and, line by line, Restore = ok  <=>  Snapshot!Validate of what the *)
(*     faulted text carries (parses, version, stored checksum = H(content) *)
(*     with H recomputed by the harness as SHA-256 over the content JSON). *)
(***************************************************************************)
EXTENDS Integers, Sequences, FiniteSets, TLC, Json, IOUtils, FiniteSetsExt

Rec == ndJsonDeserialize(IOEnv.TRACE)
Idx(kind) == {i \in DOMAIN Rec : Rec[i].k = kind}

\* Snapshot!Validate on what the faulted text says: it parses as a package, the version is the
\* supported one, and the stored checksum is H (SHA-256 of the JSON) of the content it carries.
\* This uses the pinned checksum recipe and the library's own deserializer: it is the MODEL of the code.
Valid(e) == e.pkg.parsed /\ e.pkg.ver = 1 /\ e.pkg.sum = e.pkg.hsum

\* What the PROPERTY says must be an error, read off the faulted text by a generic JSON parser: it is
\* not JSON, or states another version than the package that was written (the written one is supported by
\* definition; which other versions are supported is not for the check to know), or its stored checksum or its content (price, stored aggregates,
\* number / sequence / any field of the orders) is no longer that of the package that was written.
\* (the two re-encodings the harness constructs as content-preserving - pretty printing, documented
\*  spelling aliases of enum values - are by construction not alterations)
MustErr(e) == e.f \notin {"same-pretty", "same-alias"} /\ (~e.j.parsed \/ ~e.j.versame \/ ~e.j.sumsame \/ ~e.j.contentsame)

LineOk(e) ==
  IF e.k = "pkg" THEN e.res = "ok" /\ e.same
  ELSE /\ e.res \in {"ok", "err"}
       /\ (MustErr(e) => e.res = "err")
       /\ (e.res = "ok" => e.same)                     \* a restore that succeeds yields the snapshotted content
       /\ (e.trunc => e.res = "err")                   \* every proper prefix
       /\ (e.f \in {"struct", "structpkg"} => e.res = "err")

\* conformance to the model of the pinned code (not demanded by C09, which is an "only if"):
\* restore = ok exactly when Validate holds; content-preserving re-encodings still restore
LineConf(e) ==
  e.k = "pkg" \/ /\ (e.res = "ok" <=> Valid(e))
                 /\ (e.f \in {"same-pretty", "same-alias"} => e.res = "ok" /\ e.same)

Bad == {i \in DOMAIN Rec : ~LineOk(Rec[i])}
Drifted == {i \in DOMAIN Rec : ~LineConf(Rec[i])}
Kinds == {Rec[i].f : i \in Idx("f")}
Summary == [lines |-> Len(Rec), packages |-> Cardinality(Idx("pkg")), faults |-> Cardinality(Idx("f")),
            bad |-> Cardinality(Bad), firstbad |-> IF Bad = {} THEN 0 ELSE Min(Bad),
            drift |-> Cardinality(Drifted), firstdrift |-> IF Drifted = {} THEN 0 ELSE Min(Drifted),
            musterr |-> Cardinality({i \in Idx("f") : MustErr(Rec[i])}),
            accepted |-> Cardinality({i \in Idx("f") : Rec[i].res = "ok"}),
            truncations |-> Cardinality({i \in Idx("f") : Rec[i].trunc}),
            kinds |-> Cardinality(Kinds)]
VARIABLE x
Spec == x = 0 /\ [][UNCHANGED x]_x
EmitSummary == PrintT(<<"SUMMARY", ToJson(Summary)>>)
=============================================================================
