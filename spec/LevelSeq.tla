------------------------------ MODULE LevelSeq ------------------------------
(***************************************************************************)
(* Sequential (macro grain) view of the price level: one step = one whole  *)
(* call, obtained from the SAME micro-step semantics by Level!RunCall.     *)
(*                                                                         *)
(* Per-call property predicates P_Cxx(pre, call, ret, post, sg) state what *)
(* C01 C02 C04 C06 C07 C15 demand of a single call in terms of the         *)
(* observable state before/after it and a small sequential ghost `sg`      *)
(* that is advanced from (pre, call, ret, post) only.  They are used       *)
(*   - by SeqMC (this module): TLC checks them on every call of every      *)
(*     history of the model, and                                           *)
(*   - by TraceSeq.tla: TLC evaluates the very same operators on every     *)
(*     call the harness recorded from the real code.                       *)
(***************************************************************************)
EXTENDS Level

-----------------------------------------------------------------------------
(* The documented per-order rule (no D1), used by the IDEAL priority queue *)
MatchPlainDoc(o, q) ==
  IF o.vis <= q THEN MR(o.vis, NoOrder, 0, q - o.vis) ELSE MR(q, [o EXCEPT !.vis = o.vis - q], 0, 0)
MatchDoc(o, q) ==
  CASE o.kind = "Standard" -> MatchStandard(o, q) [] o.kind = "Iceberg" -> MatchIceberg(o, q)
    [] o.kind = "Reserve" -> MatchReserve(o, q)   [] OTHER -> MatchPlainDoc(o, q)

Without(s, i)  == SelectSeq(s, LAMBDA x : x # i)
Count(s, i)    == Cardinality({k \in DOMAIN s : s[k] = i})

(***************************************************************************)
(* IDEAL time priority (what C04 states).  `prio` lists the resting ids in *)
(* arrival order.  A sweep walks it from the front:                        *)
(*   - an order that trades and is exhausted leaves;                       *)
(*   - an order whose display is replenished from hidden quantity moves to *)
(*     the back (with or without having traded in this visit);             *)
(*   - a partially filled order KEEPS ITS PLACE when `requeueTail` is      *)
(*     FALSE (the property) and goes to the back when TRUE (what the code  *)
(*     does, deviation D5: every surviving maker is re-queued with push);  *)
(*   - an order with nothing displayed that cannot replenish is passed     *)
(*     over and keeps its place (requeueTail: it is set aside and          *)
(*     re-queued at the tail after the sweep); a zero-quantity plain order *)
(*     leaves.                                                             *)
(* Result: the [maker, qty] sequence, the new priority list and orders.    *)
(***************************************************************************)
RECURSIVE Sweep(_, _, _, _, _, _, _)
Sweep(prio, k, qm, rem, txs, requeueTail, aside) ==
  IF rem = 0 \/ k > Len(prio) THEN [txs |-> txs, prio |-> prio \o aside, qm |-> qm, rem |-> rem]
  ELSE LET i   == prio[k]
           res == MatchDoc(qm[i], rem)
           tx2 == IF res.c > 0 THEN Append(txs, [maker |-> i, qty |-> res.c]) ELSE txs
       IN IF ~IsOrder(res.upd)
          THEN Sweep(RemoveAt(prio, k), k, [qm EXCEPT ![i] = NoOrder], res.rem, tx2, requeueTail, aside)
          ELSE IF res.hr > 0 \/ (requeueTail /\ res.c > 0)
          THEN Sweep(Append(RemoveAt(prio, k), i), k, [qm EXCEPT ![i] = res.upd], res.rem, tx2, requeueTail, aside)
          ELSE IF res.c > 0       \* partial fill, rem = 0 now: keeps its place
          THEN Sweep(prio, k, [qm EXCEPT ![i] = res.upd], res.rem, tx2, requeueTail, aside)
          ELSE IF requeueTail     \* nothing displayed: set aside, re-queued at the tail after the sweep
          THEN Sweep(RemoveAt(prio, k), k, qm, rem, txs, requeueTail, Append(aside, i))
          ELSE Sweep(prio, k + 1, qm, rem, txs, requeueTail, aside)   \* passed over, keeps its place

IdealMatch(prio, qm, q, requeueTail) == Sweep(prio, 1, qm, q, <<>>, requeueTail, <<>>)

MakerQty(txs) == [k \in DOMAIN txs |-> [maker |-> txs[k].maker, qty |-> txs[k].qty]]

-----------------------------------------------------------------------------
(***************************************************************************)
(* Effective arrival order of a level state: the live ids in the order of  *)
(* their first ticket.  This is the order in which pop hands them out.     *)
(***************************************************************************)
LiveOrder(o) ==
  LET firsts == {k \in DOMAIN o.tickets : IsOrder(o.qmap[o.tickets[k]]) /\ \A j \in 1..(k-1) : o.tickets[j] # o.tickets[k]}
      ks == SetToSortSeq(firsts, <)
  IN [n \in DOMAIN ks |-> o.tickets[ks[n]]]

(***************************************************************************)
(* Sequential ghost.                                                       *)
(*  supplied/executed/back/disc   cumulative accounting per id             *)
(*  issued   set of transaction ids handed out so far                      *)
(*  gone     ids handed to a caller by a removal and not added since       *)
(*  nAdd, nRem, qtyX   what the statistics must report                     *)
(***************************************************************************)
(*  allowed[id]   how many tickets of id beyond the one of a resting order the queue may hold BY THE KNOWN   *)
(*                MECHANISM (KF-C04-2: a removal by id - cancel, move, the remove half of an amend - leaves   *)
(*                the ticket behind): +1 per successful removal by id, never more than the queue really holds *)
SeqGhostInit(qm) ==
  [supplied |-> [i \in Ids |-> IF IsOrder(qm[i]) THEN Total(qm[i]) ELSE 0],
   executed |-> ZeroIds, back |-> ZeroIds, disc |-> ZeroIds,
   issued |-> {}, gone |-> [i \in Ids |-> FALSE], nAdd |-> 0, nRem |-> 0, qtyX |-> 0,
   allowed |-> ZeroIds]

\* tickets of id i beyond the one a resting order needs
ExcessTickets(o, i) == Cardinality({k \in DOMAIN o.tickets : o.tickets[k] = i}) - (IF IsOrder(o.qmap[i]) THEN 1 ELSE 0)
\* every surplus ticket of the observed queue is one the known mechanism accounts for
LegitTickets(sg, o) == \A i \in Ids : ExcessTickets(o, i) <= sg.allowed[i]

TxQtyOf(txs, i) == SumSeq([k \in DOMAIN txs |-> IF txs[k].maker = i THEN txs[k].qty ELSE 0])

SeqGhostNext0(sg, pre, c, r, post) ==
  CASE c.op = "add" /\ r.t = "some" ->
         [sg EXCEPT !.supplied[c.o.id] = @ + Total(c.o), !.gone[c.o.id] = FALSE, !.nAdd = @ + 1]
    [] c.op = "add" -> [sg EXCEPT !.nAdd = @ + 1]
    [] c.op = "match" /\ r.t = "match" ->
         LET left == {i \in Live(pre.qmap) : ~IsOrder(post.qmap[i])}
         IN [sg EXCEPT !.executed = [i \in Ids |-> @[i] + TxQtyOf(r.txs, i)],
                       !.disc = [i \in Ids |-> IF i \in left
                                               THEN @[i] + Total(pre.qmap[i]) - TxQtyOf(r.txs, i) ELSE @[i]],
                       !.issued = @ \cup {r.txs[k].txid : k \in DOMAIN r.txs},
                       !.qtyX = @ + SumSeq([k \in DOMAIN r.txs |-> r.txs[k].qty])]
    [] Class(c) = "remove" /\ r.t = "some" ->
         [sg EXCEPT !.back[r.o.id] = @ + Total(r.o), !.gone[r.o.id] = TRUE, !.nRem = @ + 1]
    [] Class(c) = "amend" /\ r.t = "some" /\ c.id \in Live(pre.qmap) ->
         [sg EXCEPT !.supplied[c.id] = @ + Total(r.o) - Total(pre.qmap[c.id])]
    [] OTHER -> sg

SeqGhostNext(sg, pre, c, r, post) ==
  LET g == SeqGhostNext0(sg, pre, c, r, post)
      byId(i) == Class(c) \in {"remove", "amend"} /\ r.t = "some" /\ c.id = i
  IN [g EXCEPT !.allowed = [i \in Ids |-> Min2(sg.allowed[i] + (IF byId(i) THEN 1 ELSE 0), Max2(ExcessTickets(post, i), 0))]]

-----------------------------------------------------------------------------
(* Observable part of a shared state, for "nothing changed" comparisons *)
Book(s) == [vis |-> s.vis, hid |-> s.hid, cnt |-> s.cnt, qmap |-> s.qmap]

\* C01 ------------------------------------------------------------------------
P_C01(pre, c, r, post, sg) == Mon_C01(post)

\* C02 ------------------------------------------------------------------------
P_C02(pre, c, r, post, sg, sg2) ==
  (c.op = "match" /\ r.t = "match") =>
    /\ r.exe + r.rem = c.q
    /\ r.complete <=> (r.rem = 0)
    /\ r.taker = c.taker
    /\ r.exe = SumSeq([k \in DOMAIN r.txs |-> r.txs[k].qty])
    /\ \A k \in DOMAIN r.txs :
         LET x == r.txs[k] IN
         /\ x.qty > 0 /\ x.px = Price /\ x.taker = c.taker
         /\ x.maker \in Live(pre.qmap)
         /\ x.tside = Opposite(pre.qmap[x.maker].side)
         /\ x.txid \notin sg.issued
         /\ \A j \in DOMAIN r.txs : j # k => r.txs[j].txid # x.txid
    \* filled = exactly the makers that traded and left the book in this call
    /\ Range(r.filled) = {i \in {r.txs[k].maker : k \in DOMAIN r.txs} : ~IsOrder(post.qmap[i])}
    /\ Len(r.filled) = Cardinality(Range(r.filled))
    \* lifetime bound through the conservation equality per id
    /\ \A i \in Ids : sg2.supplied[i] = sg2.executed[i] + sg2.back[i] + sg2.disc[i]
                                          + (IF IsOrder(post.qmap[i]) THEN Total(post.qmap[i]) ELSE 0)
    /\ \A i \in Ids : sg2.disc[i] >= 0 /\ sg2.executed[i] <= sg2.supplied[i]

\* C04 ------------------------------------------------------------------------
(* Time priority is judged call by call on the EFFECTIVE arrival order LiveOrder:
   (T1) a match executes against the orders in that order (IdealMatch), and
   (T2) every call transforms that order as the property says: an add joins at the back
        (also for an id cancelled earlier), a removal deletes, a same-price amendment and a
        partial fill keep the place, a replenishment moves to the back.
   A deviation is a known finding only at the call that introduces it and only if it is
   exactly one of the two named ones; `faithful` is the model's prediction [ret, sh].    *)
IdealOrderAfter(pre, c, r, post) ==
  LET cur == LiveOrder(pre) IN
  CASE c.op = "add" /\ r.t = "some" -> Append(Without(cur, c.o.id), c.o.id)
    [] Class(c) = "remove" /\ r.t = "some" -> Without(cur, r.o.id)
    [] c.op = "match" /\ r.t = "match" ->
         SelectSeq(IdealMatch(cur, pre.qmap, c.q, FALSE).prio, LAMBDA i : IsOrder(post.qmap[i]))
    [] OTHER -> cur
TailOrderAfter(pre, c, r, post) ==       \* the same with deviation D5 (tail re-queue of a partial fill)
  IF c.op = "match" /\ r.t = "match"
  THEN SelectSeq(IdealMatch(LiveOrder(pre), pre.qmap, c.q, TRUE).prio, LAMBDA i : IsOrder(post.qmap[i]))
  ELSE IdealOrderAfter(pre, c, r, post)

\* a live id with more than one ticket: the older one is a stale ticket whose position the
\* order inherits (deviation D6)
HasDupTicket(s) == \E i \in Live(s.qmap) : Count(s.tickets, i) >= 2
\* a ticket of an id that is not resting: a later add of that id inherits its position (D6)
HasStaleTicket(s) == \E k \in DOMAIN s.tickets : ~IsOrder(s.qmap[s.tickets[k]])

\* set of tags: {} = as the property says; {"KF-..."} = explained known finding; {"unexplained"}
C04Tags(pre, c, r, post, faithful, legit) ==
  LET \* `faithful` = [ret, sh, pre]: what the model of the code predicts for this call from the OBSERVED pre-state.
      \* `legit`: every surplus ticket of the observed queue, before and after the call, is one that the known
      \* mechanism accounts for (a removal by id was observed for it) - a defect that leaves tickets behind by any
      \* other route is not excused, and a benign change that leaves FEWER tickets behind does not confuse the
      \* attribution (both happened with a model of the pinned queue run alongside).
      predicted == faithful # NoOrder /\ faithful.ret.t = r.t /\ LiveOrder(faithful.sh) = LiveOrder(post)
                   /\ (r.t = "match" => MakerQty(faithful.ret.txs) = MakerQty(r.txs))
      mstale == legit /\ (HasDupTicket(pre) \/ HasStaleTicket(pre) \/ HasDupTicket(post))
      t1 == IF c.op = "match" /\ r.t = "match"
               /\ MakerQty(r.txs) # IdealMatch(LiveOrder(pre), pre.qmap, c.q, FALSE).txs
            THEN (IF predicted /\ mstale THEN {"KF-C04-2"} ELSE {"unexplained"})
            ELSE {}
      t2 == IF LiveOrder(post) = IdealOrderAfter(pre, c, r, post) THEN {}
            ELSE IF LiveOrder(post) = TailOrderAfter(pre, c, r, post) THEN {"KF-C04-1"}     \* judged on observations alone
            ELSE IF predicted /\ mstale THEN {"KF-C04-2"}
            ELSE {"unexplained"}
  IN t1 \cup t2

\* C06 ------------------------------------------------------------------------
P_C06(pre, c, r, post, sg) ==
  (c.op = "match") =>
    /\ r.t = "match"                                    \* it returned (not "hang")
    /\ (r.rem > 0 => \A i \in Live(post.qmap) : post.qmap[i].vis = 0)
    /\ r.exe >= Min2(c.q, SumVis(pre.qmap))

\* C07 ------------------------------------------------------------------------
P_C07(pre, c, r, post, sg) ==
  CASE Class(c) = "remove" ->
         IF c.id \in Live(pre.qmap)
         THEN /\ r = RetSome(pre.qmap[c.id])                                  \* current remaining quantities
              /\ post.qmap = [pre.qmap EXCEPT ![c.id] = NoOrder]             \* it and only it
         ELSE r = RetNone /\ Book(post) = Book(pre)
    [] Class(c) = "err" -> r = RetErr /\ Book(post) = Book(pre)
    [] Class(c) = "amend" ->
         IF c.id \in Live(pre.qmap)
         THEN /\ r.t = "some" /\ r.o = post.qmap[c.id]                        \* the order that now rests
              /\ SameIdentity(pre.qmap[c.id], r.o)
              /\ (r.o.kind \in {"Standard", "PostOnly", "Iceberg"} => r.o.vis = c.q)
              /\ \A i \in Ids : i # c.id => post.qmap[i] = pre.qmap[i]
         ELSE r = RetNone /\ Book(post) = Book(pre)
    [] c.op = "match" /\ r.t = "match" ->
         \A k \in DOMAIN r.txs : r.txs[k].maker \in Ids => ~sg.gone[r.txs[k].maker]   \* never trades afterwards
    [] c.op \in {"read", "list", "snapshot", "display", "serialize", "stats", "snapjson"} ->
         post = pre                                                         \* reads are pure
    \* (what an add does is not C07's subject: a deviation there is model drift, and C01 / C02 / C04
    \*  judge its consequences)
    [] OTHER -> TRUE

\* C15 ------------------------------------------------------------------------
P_C15(post, sg2) == /\ post.st.added = sg2.nAdd /\ post.st.removed = sg2.nRem
                    /\ post.st.qty = sg2.qtyX /\ post.st.val = sg2.qtyX * Price

(* All per-call checks; result = set of names of the properties the call violates, and the
   known-finding tags that explain a C04 deviation.  `faithful` is what the model of the
   code (tickets and all) predicts for this call from the same pre-state: [ret, sh], or
   NoOrder if no prediction is available. *)
CallVerdict(pre, c, r, post, sg, faithful) ==
  LET sg2 == SeqGhostNext(sg, pre, c, r, post)
      kf4 == C04Tags(pre, c, r, post, faithful, LegitTickets(sg, pre) /\ LegitTickets(sg2, post))
  IN [bad |-> (IF P_C01(pre, c, r, post, sg) THEN {} ELSE {"C01"})
              \cup (IF P_C02(pre, c, r, post, sg, sg2) THEN {} ELSE {"C02"})
              \cup (IF "unexplained" \in kf4 THEN {"C04"} ELSE {})
              \cup (IF P_C06(pre, c, r, post, sg) THEN {} ELSE {"C06"})
              \cup (IF P_C07(pre, c, r, post, sg) THEN {} ELSE {"C07"})
              \cup (IF P_C15(post, sg2) THEN {} ELSE {"C15"}),
      kf  |-> kf4 \ {"unexplained"},
      sg  |-> sg2]

=============================================================================
