#!/bin/sh
# usage: altrun.sh <abs patch.diff> <tag> <prop>...
# Runs quick checks against a PATCHED COPY of the library without touching /repo's working tree:
# a scratch worktree of /repo with the patch applied + a scratch copy of /verif whose harness depends on it.
# Only for false-alarm probes (benign patches) while /repo is in use; registered checks always use /repo.
patch=$1; tag=$2; shift; shift
base=/tmp/alt_$tag
rm -rf $base; mkdir -p $base
git -C /repo worktree add --detach $base/repo HEAD -q || exit 2
git -C $base/repo apply $patch || { echo "patch does not apply"; git -C /repo worktree remove --force $base/repo; rm -rf $base; exit 2; }
rsync -a --exclude .git --exclude work --exclude harness/target --exclude evidence --exclude replays --exclude seeded /verif/ $base/verif/
sed -i "s#path = \"/repo\"#path = \"$base/repo\"#" $base/verif/harness/Cargo.toml
mkdir -p $base/verif/work $base/verif/evidence $base/verif/replays
cd $base/verif
for p in "$@"; do
  ./check $p --tier quick > $base/$p.log 2>&1; rc=$?
  echo "=== $(basename $patch) $p rc=$rc : $(grep -E '^(OK|VIOLATION|TOOL)' $base/$p.log | head -1 | cut -c1-90) drift=$(grep -c '^DRIFT' $base/$p.log) | $(grep -E '^  ' $base/$p.log | head -1 | cut -c1-160)"
  if [ $rc -ne 0 ]; then mkdir -p /verif/work/alt; cp $base/$p.log /verif/work/alt/${tag}_$p.log; cp $base/verif/replays/*.json /verif/work/alt/ 2>/dev/null; fi
done
cd /
git -C /repo worktree remove --force $base/repo
git -C /repo worktree prune
rm -rf $base
