//! JSON forms shared with the TLA+ specification (see spec/Level.tla for the field meanings).

use pricelevel::*;
use serde_json::{json, Value};
use std::collections::HashMap;
use std::sync::Arc;

pub const CLAMP: i64 = 2_000_000_000;

/// u64 reinterpreted as a signed number (a wrapped counter shows as a negative value, exactly as
/// in the unbounded-integer model), clamped to what TLC can represent.
pub fn sint(v: u64) -> i64 {
    let s = v as i64;
    s.clamp(-CLAMP, CLAMP)
}
/// SCALED RUNS.  A scenario may carry "scale": K.  Every quantity that enters the library (order quantities,
/// thresholds, replenish amounts, match and amend sizes) is then multiplied by K, and every quantity that
/// comes out is divided by K before it is logged - it must be an exact multiple.  The recording is thereby in
/// the small numbers the specification is checked with, while the library computes with 40- to 60-bit values.
/// A quantity that is not a multiple of K (a wrapped counter, a constant that was added instead of scaled)
/// is logged as -CLAMP + 7 and fails conformance and the monitors.
pub static SCALE: std::sync::atomic::AtomicU64 = std::sync::atomic::AtomicU64::new(1);
pub fn scale() -> u64 {
    SCALE.load(std::sync::atomic::Ordering::Relaxed)
}
/// quantity out of the library
pub fn sq(v: u64) -> i64 {
    let k = scale();
    if k == 1 {
        sint(v)
    } else if v % k == 0 {
        sint(v / k)
    } else {
        -CLAMP + 7
    }
}
/// quantity into the library
pub fn inq(v: u64) -> u64 {
    v.saturating_mul(scale())
}
/// PRICE SCALE ("pscale": P): the same for every price (the level's, the orders' own price fields, the prices of
/// move / replace requests, transaction prices); an executed VALUE is quantity x price and scales by K * P.
pub static PSCALE: std::sync::atomic::AtomicU64 = std::sync::atomic::AtomicU64::new(1);
pub fn pscale() -> u64 {
    PSCALE.load(std::sync::atomic::Ordering::Relaxed)
}
pub fn inp(v: u64) -> u64 {
    v.saturating_mul(pscale())
}
pub fn pq(v: u64) -> i64 {
    let k = pscale();
    if k == 1 {
        sint(v)
    } else if v % k == 0 {
        sint(v / k)
    } else {
        -CLAMP + 13
    }
}
/// executed value out of the library
pub fn vq(v: u64) -> i64 {
    let k = (scale() as u128) * (pscale() as u128);
    if k == 1 {
        sint(v)
    } else if (v as u128) % k == 0 {
        sint(((v as u128) / k) as u64)
    } else {
        -CLAMP + 15
    }
}
pub fn sint_usize(v: usize) -> i64 {
    sint(v as u64)
}

/// TIMESTAMP OFFSET and ID FORMAT of a scenario ("tsoff": B, "ulid": true), in the manner of SCALE: every order
/// timestamp is shifted by B on the way in and shifted back on the way out (arrival times in micro- or nanoseconds,
/// or at the 64-bit limit, ahead of the wall clock), and every order id is issued in the ULID format.
pub static TSOFF: std::sync::atomic::AtomicU64 = std::sync::atomic::AtomicU64::new(0);
pub static ULID_IDS: std::sync::atomic::AtomicBool = std::sync::atomic::AtomicBool::new(false);
pub fn ts_in(t: u64) -> u64 {
    t.saturating_add(TSOFF.load(std::sync::atomic::Ordering::Relaxed))
}
pub fn ts_out(t: u64) -> i64 {
    let b = TSOFF.load(std::sync::atomic::Ordering::Relaxed);
    if t >= b {
        sint(t - b)
    } else {
        -CLAMP + 11
    }
}

/// TWIN IDS ("twins": true): the ids 4, 5, 6 of a scenario are ULIDs that carry exactly the 128 bits of the UUID
/// ids 1, 2, 3 - different ids for the library (the format is part of the id), equal as raw bytes.
pub static TWIN_IDS: std::sync::atomic::AtomicBool = std::sync::atomic::AtomicBool::new(false);
const TWIN_SHIFT: u64 = 3;

pub fn oid_of(n: u64) -> OrderId {
    if TWIN_IDS.load(std::sync::atomic::Ordering::Relaxed) && n > TWIN_SHIFT && n <= 2 * TWIN_SHIFT {
        // same bytes as OrderId::from_u64(n - 3): the u64 big-endian in the high half, zero in the low half
        return OrderId::from_ulid(ulid::Ulid::from(((n - TWIN_SHIFT) as u128) << 64));
    }
    if n >= 1_000_000 || ULID_IDS.load(std::sync::atomic::Ordering::Relaxed) {
        // ULID flavoured ids
        OrderId::from_ulid(ulid::Ulid::from((n as u128) << 64 | 0x5555))
    } else {
        OrderId::from_u64(n)
    }
}

pub fn id_num(id: &OrderId) -> i64 {
    match id {
        OrderId::Uuid(u) => {
            let b = u.as_bytes();
            if b[8..].iter().all(|x| *x == 0) {
                let mut a = [0u8; 8];
                a.copy_from_slice(&b[..8]);
                sint(u64::from_be_bytes(a))
            } else {
                -1
            }
        }
        OrderId::Ulid(u) => {
            let v: u128 = (*u).into();
            if v & 0xFFFF_FFFF_FFFF_FFFF == 0x5555 {
                sint((v >> 64) as u64)
            } else if v & 0xFFFF_FFFF_FFFF_FFFF == 0 && TWIN_IDS.load(std::sync::atomic::Ordering::Relaxed) {
                sint((v >> 64) as u64 + TWIN_SHIFT)
            } else {
                -1
            }
        }
    }
}

pub fn side_of(s: &str) -> Side {
    if s == "Sell" {
        Side::Sell
    } else {
        Side::Buy
    }
}
pub fn side_str(s: Side) -> &'static str {
    match s {
        Side::Buy => "Buy",
        Side::Sell => "Sell",
    }
}

fn tif_of(s: &str) -> TimeInForce {
    match s {
        "IOC" => TimeInForce::Ioc,
        "FOK" => TimeInForce::Fok,
        "DAY" => TimeInForce::Day,
        x if x.starts_with("GTD-") => TimeInForce::Gtd(x[4..].parse().unwrap_or(0)),
        _ => TimeInForce::Gtc,
    }
}

fn u(v: &Value, k: &str) -> u64 {
    v.get(k).and_then(|x| x.as_u64()).unwrap_or(0)
}

/// `par` = every identity field that is neither id, kind, quantities, reserve parameters,
/// timestamp, side nor price, rendered canonically: "<tif>[|a|b]".
pub fn order_of(v: &Value) -> OrderType<()> {
    let id = oid_of(u(v, "id"));
    let price = inp(v.get("px").and_then(|x| x.as_u64()).unwrap_or(100));
    let side = side_of(v.get("side").and_then(|x| x.as_str()).unwrap_or("Buy"));
    let timestamp = ts_in(u(v, "ts"));
    let par = v.get("par").and_then(|x| x.as_str()).unwrap_or("GTC");
    let mut parts = par.split('|');
    let time_in_force = tif_of(parts.next().unwrap_or("GTC"));
    let p1 = parts.next().unwrap_or("0");
    let p2 = parts.next().unwrap_or("0");
    let vis = inq(u(v, "vis"));
    let hid = inq(u(v, "hid"));
    match v.get("kind").and_then(|x| x.as_str()).unwrap_or("Standard") {
        "Iceberg" => OrderType::IcebergOrder { id, price, visible_quantity: vis, hidden_quantity: hid, side, timestamp, time_in_force, extra_fields: () },
        "PostOnly" => OrderType::PostOnly { id, price, quantity: vis, side, timestamp, time_in_force, extra_fields: () },
        "TrailingStop" => OrderType::TrailingStop {
            id,
            price,
            quantity: vis,
            side,
            timestamp,
            time_in_force,
            trail_amount: p1.parse().unwrap_or(0),
            last_reference_price: p2.parse().unwrap_or(0),
            extra_fields: (),
        },
        "Pegged" => OrderType::PeggedOrder {
            id,
            price,
            quantity: vis,
            side,
            timestamp,
            time_in_force,
            reference_price_offset: p1.parse().unwrap_or(0),
            reference_price_type: match p2 {
                "BestAsk" => PegReferenceType::BestAsk,
                "MidPrice" => PegReferenceType::MidPrice,
                "LastTrade" => PegReferenceType::LastTrade,
                _ => PegReferenceType::BestBid,
            },
            extra_fields: (),
        },
        "MarketToLimit" => OrderType::MarketToLimit { id, price, quantity: vis, side, timestamp, time_in_force, extra_fields: () },
        "Reserve" => {
            let amt = v.get("amt").and_then(|x| x.as_i64()).unwrap_or(-1);
            OrderType::ReserveOrder {
                id,
                price,
                visible_quantity: vis,
                hidden_quantity: hid,
                side,
                timestamp,
                time_in_force,
                replenish_threshold: inq(u(v, "thr")),
                replenish_amount: if amt < 0 { None } else { Some(inq(amt as u64)) },
                auto_replenish: v.get("auto").and_then(|x| x.as_bool()).unwrap_or(false),
                extra_fields: (),
            }
        }
        _ => OrderType::Standard { id, price, quantity: vis, side, timestamp, time_in_force, extra_fields: () },
    }
}

pub fn order_json(o: &OrderType<()>) -> Value {
    // rendered here, not by the library's Display (the code under test)
    let tif = match o.time_in_force() {
        TimeInForce::Gtc => "GTC".to_string(),
        TimeInForce::Ioc => "IOC".to_string(),
        TimeInForce::Fok => "FOK".to_string(),
        TimeInForce::Day => "DAY".to_string(),
        TimeInForce::Gtd(n) => format!("GTD-{n}"),
    };
    let (kind, thr, amt, auto, par) = match o {
        OrderType::Standard { .. } => ("Standard", 0, -1, false, tif),
        OrderType::IcebergOrder { .. } => ("Iceberg", 0, -1, false, tif),
        OrderType::PostOnly { .. } => ("PostOnly", 0, -1, false, tif),
        OrderType::TrailingStop { trail_amount, last_reference_price, .. } => ("TrailingStop", 0, -1, false, format!("{tif}|{trail_amount}|{last_reference_price}")),
        OrderType::PeggedOrder { reference_price_offset, reference_price_type, .. } => ("Pegged", 0, -1, false, format!("{tif}|{reference_price_offset}|{}", match reference_price_type {
            PegReferenceType::BestBid => "BestBid",
            PegReferenceType::BestAsk => "BestAsk",
            PegReferenceType::MidPrice => "MidPrice",
            PegReferenceType::LastTrade => "LastTrade",
        })),
        OrderType::MarketToLimit { .. } => ("MarketToLimit", 0, -1, false, tif),
        OrderType::ReserveOrder { replenish_threshold, replenish_amount, auto_replenish, .. } => {
            ("Reserve", sq(*replenish_threshold), replenish_amount.map(sq).unwrap_or(-1), *auto_replenish, tif)
        }
    };
    json!({"id": id_num(&o.id()), "kind": kind, "vis": sq(o.visible_quantity()), "hid": sq(o.hidden_quantity()),
           "thr": thr, "amt": amt, "auto": auto, "ts": ts_out(o.timestamp()), "side": side_str(o.side()),
           "px": pq(o.price()), "par": par})
}

pub fn no_order() -> Value {
    json!({"kind": "none"})
}

pub fn opt_order_json(o: Option<&Arc<OrderType<()>>>) -> Value {
    match o {
        Some(a) => order_json(a),
        None => no_order(),
    }
}

/// Labels of the shared objects of one level (by object id of the shim).
pub struct Labels {
    pub by_oid: HashMap<usize, &'static str>,
}

impl Labels {
    pub fn of_level(l: &PriceLevel, gen: Option<&UuidGenerator>) -> Self {
        let mut m = HashMap::new();
        let (v, h, c) = l.verif_oids();
        m.insert(v, "vis");
        m.insert(h, "hid");
        m.insert(c, "cnt");
        let (mp, tk) = l.verif_queue().verif_oids();
        m.insert(mp, "map");
        m.insert(tk, "tickets");
        let s = l.stats();
        m.insert(s.orders_added.oid(), "st_added");
        m.insert(s.orders_removed.oid(), "st_removed");
        m.insert(s.orders_executed.oid(), "st_exec");
        m.insert(s.quantity_executed.oid(), "st_qty");
        m.insert(s.value_executed.oid(), "st_val");
        m.insert(s.last_execution_time.oid(), "st_last");
        m.insert(s.first_arrival_time.oid(), "st_first");
        m.insert(s.sum_waiting_time.oid(), "st_wait");
        if let Some(g) = gen {
            m.insert(g.verif_counter().1, "gen");
        }
        Labels { by_oid: m }
    }
    pub fn is_stat(&self, oid: usize) -> bool {
        matches!(self.by_oid.get(&oid), Some(s) if s.starts_with("st_"))
    }
}

pub fn map_json(l: &PriceLevel) -> Value {
    let mut os: Vec<Arc<OrderType<()>>> = l.verif_queue().verif_orders();
    os.sort_by_key(|o| id_num(&o.id()));
    Value::Array(os.iter().map(|o| order_json(o)).collect())
}

pub fn tickets_json(l: &PriceLevel) -> Value {
    Value::Array(l.verif_queue().verif_tickets().iter().map(|i| json!(id_num(i))).collect())
}

pub fn agg_json(l: &PriceLevel) -> Value {
    let (v, h, c) = l.verif_peek();
    json!([sq(v), sq(h), sint_usize(c)])
}

/// Full projected state of a level (no events are generated: peeks only), plus, when `api`
/// is set, what the public read API reports (called from an unregistered thread).
pub fn state_json(l: &PriceLevel, gen: Option<&UuidGenerator>, api: bool) -> Value {
    let (v, h, c) = l.verif_peek();
    let s = l.stats();
    let mut st = json!({
        "vis": sq(v), "hid": sq(h), "cnt": sint_usize(c),
        "orders": map_json(l), "tickets": tickets_json(l),
        "st": {"added": sint_usize(s.orders_added.peek()), "removed": sint_usize(s.orders_removed.peek()),
               "exec": sint_usize(s.orders_executed.peek()), "qty": sq(s.quantity_executed.peek()),
               "val": vq(s.value_executed.peek())},
        "gen": gen.map(|g| sint(g.verif_counter().0)).unwrap_or(0),
    });
    if api {
        let listing: Vec<Value> = l.iter_orders().iter().map(|o| order_json(o)).collect();
        // the library's own total_quantity() (a panic in it is a wrapped / impossible total)
        let tot = std::panic::catch_unwind(std::panic::AssertUnwindSafe(|| l.total_quantity())).map(sq).unwrap_or(-CLAMP + 9);
        st["api"] = json!({"vis": sq(l.visible_quantity()), "hid": sq(l.hidden_quantity()),
                           "cnt": sint_usize(l.order_count()), "tot": tot, "price": pq(l.price()),
                           "list": listing,
                           "sadded": sint_usize(s.orders_added()), "sremoved": sint_usize(s.orders_removed()),
                           "sqty": sq(s.quantity_executed()), "sval": vq(s.value_executed())});
    }
    st
}
