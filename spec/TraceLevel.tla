----------------------------- MODULE TraceLevel -----------------------------
(***************************************************************************)
(* Trace validation, implementation -> specification, micro grain.         *)
(*                                                                         *)
(* Input: the ND-JSON recording of the harness (IOEnv.TRACE), one line per *)
(* event of the real code running under the baton scheduler:               *)
(*   reset  new execution; carries the full observed state                 *)
(*   call   thread t starts call c                                         *)
(*   op     thread t performed operation (o, op, v, r) on a shared object; *)
(*          carries the aggregates after it ("a") and, when changed, the   *)
(*          map ("m"), the tickets ("q"), the generator counter ("g")      *)
(*   ret    thread t's call returned r (full state "st" if all idle)       *)
(*   end    execution over; full state incl. what the read API reports     *)
(*                                                                         *)
(* Every line is one TLC step.  Two things happen on each line:            *)
(*  (1) CONFORMANCE.  The model takes the step of that thread              *)
(*      (Level!Step1) and must produce exactly the logged event and a      *)
(*      shared state that agrees with everything the line shows.  A        *)
(*      mismatch is recorded as DRIFT for this execution (the model is     *)
(*      no longer stepped until the next reset); it is not by itself a     *)
(*      property violation.                                                *)
(*  (2) MONITORS.  The event-driven ghost (Level!GhostCall/Op/Ret) is      *)
(*      advanced with the LOGGED event and the property monitors are       *)
(*      evaluated on the OBSERVED state.  They are the same operators      *)
(*      TLC checks as invariants on the model (LevelConc.tla).  A failing  *)
(*      monitor is recorded in `fails` with line, scenario and run.        *)
(* The run always consumes the whole trace; the summary is printed as one  *)
(* JSON line by the post-condition.                                        *)
(***************************************************************************)
EXTENDS TraceCommon

VARIABLES l,        \* next line
          sh, th,   \* model: shared state, thread-local states
          ob,       \* observed shared state, reconstructed from the log only
          gh,       \* ghost, driven by logged events
          ex,       \* current execution [sc, run, drift (line or 0), drained]
          sum       \* summary [execs, ops, drifts, fails, kf, quiet, mon]

vars == <<l, sh, th, ob, gh, ex, sum>>

Line == Rec[l]
MaxFails == 20
MaxPerMon == 6
(* keep the first failure of each monitor per execution *)
(* An execution in which the code wrote to a map entry IN PLACE (through a write guard: the `get_mut` event) has
   changed an order without any event the observer could see; the content-based monitors (conservation C03,
   hand-out C08, statistics C15 of the ghost) cannot be judged on it and their failures are recorded as drift.
   The aggregate-range monitor C12, the acknowledgement monitor C13 and id uniqueness C14 do not depend on order
   contents and stay in force. *)
Blind == {"C03", "C08", "C15", "C01"}
AddFails(s0, fs0) ==
  \* the first failure of each monitor per execution, at most MaxPerMon executions per monitor
  \* (a cap over all monitors together would let a noisy monitor hide the others)
  LET inpl == ex.inplace \/ (Line.k = "op" /\ Line.op = "get_mut")
      fs  == IF inpl THEN {f \in fs0 : f.mon \notin Blind} ELSE fs0
      s   == IF inpl /\ fs # fs0 /\ Cardinality(s0.drifts) < MaxFails
             THEN [s0 EXCEPT !.drifts = @ \cup {[line |-> l, sc |-> ex.sc, run |-> ex.run]}] ELSE s0
      new == {f \in fs : /\ ~\E g \in s.fails : g.mon = f.mon /\ g.sc = f.sc /\ g.run = f.run
                         /\ Cardinality({g \in s.fails : g.mon = f.mon}) < MaxPerMon} IN
  [s EXCEPT !.fails = @ \cup new]

Fail(mon, line) == [mon |-> mon, line |-> line, sc |-> ex.sc, run |-> ex.run]

(* monitors evaluated after every line *)
StepFails(o, g, line) ==
  {Fail(m, line) : m \in
     (IF Mon_C12(o, g) THEN {} ELSE {"C12"}) \cup
     (IF Mon_C08_cover(o, g) THEN {} ELSE {"C08"}) \cup
     (IF Mon_C13(g) THEN {} ELSE {"C13"}) \cup
     (IF g.bad \cap BadC03 = {} THEN {} ELSE {"C03"}) }

(* monitors evaluated when all threads are idle *)
QuietFails(o, g, line) ==
  {Fail(m, line) : m \in
     (IF Mon_C01(o) THEN {} ELSE {"C01"}) \cup
     (IF Mon_C03(o, g) THEN {} ELSE {"C03"}) \cup
     (IF Mon_C14(g) THEN {} ELSE {"C14"}) \cup
     (IF Mon_C15(o, g) THEN {} ELSE {"C15"}) }

-----------------------------------------------------------------------------
Init ==
  /\ l = 1
  /\ sh = EmptyShared /\ th = <<>> /\ ob = EmptyShared
  /\ gh = GhostInit({}, EmptyMap)
  /\ ex = [sc |-> -1, run |-> -1, drift |-> 0, drained |-> FALSE, inplace |-> FALSE]
  /\ sum = [execs |-> 0, ops |-> 0, drifts |-> {}, fails |-> {}, kf |-> {}, quiet |-> 0, retchk |-> 0]


DoReset ==
  /\ Line.k = "reset"
  /\ LET o == ObsOf(Line.st) IN
     /\ sh' = o /\ ob' = o
     /\ th' = [t \in 1..Line.n |-> IdleLocal]
     /\ gh' = GhostInit(1..Line.n, o.qmap)
     /\ ex' = [sc |-> Line.sc, run |-> Line.run, drift |-> 0, drained |-> FALSE, inplace |-> FALSE]
     /\ sum' = AddFails([sum EXCEPT !.execs = @ + 1, !.kf = @ \cup gh.kf],
                        IF ApiOk(Line.st) /\ ListOk(Line.st) THEN {} ELSE {[mon |-> "C01", line |-> l, sc |-> Line.sc, run |-> Line.run]})

DoCall ==
  /\ Line.k = "call"
  /\ LET t == Line.t
         c == Line.c IN
     /\ th' = IF ex.drift = 0 /\ th[t].pc = "idle" /\ c.op \notin GenericRO THEN [th EXCEPT ![t] = Begin(th[t], c)]
              ELSE [th EXCEPT ![t] = [IdleLocal EXCEPT !.pc = "ro", !.call = c]]
     /\ gh' = GhostCall(gh, t, c, ob.qmap)
     /\ ex' = [ex EXCEPT !.drained = (c.op = "match" /\ c.taker = 99)]
  /\ UNCHANGED <<sh, ob, sum>>

(* the observed state after an op line *)
ObAfter(o, e) ==
  LET o1 == [o EXCEPT !.vis = e.a[1], !.hid = e.a[2], !.cnt = e.a[3]]
      o2 == IF Has(e, "m") THEN [o1 EXCEPT !.qmap = QmapOf(e.m)] ELSE o1
      o3 == IF Has(e, "q") THEN [o2 EXCEPT !.tickets = e.q] ELSE o2
      o4 == IF Has(e, "g") THEN [o3 EXCEPT !.gen = e.g] ELSE o3
  IN CASE e.o = "st_added" /\ e.op = "fetch_add"   -> [o4 EXCEPT !.st.added = e.r + e.v]
       [] e.o = "st_removed" /\ e.op = "fetch_add" -> [o4 EXCEPT !.st.removed = e.r + e.v]
       [] e.o = "st_exec" /\ e.op = "fetch_add"    -> [o4 EXCEPT !.st.exec = e.r + e.v]
       [] e.o = "st_qty" /\ e.op = "fetch_add"     -> [o4 EXCEPT !.st.qty = e.r + e.v]
       [] e.o = "st_val" /\ e.op = "fetch_add"     -> [o4 EXCEPT !.st.val = e.r + e.v]
       [] OTHER -> o4

EvEq(m, e) == m.o = e.o /\ m.op = e.op /\ m.v = e.v /\ m.r = e.r

ReadOnlyOps == {"load", "iter", "get", "len", "is_empty"}

DoOp ==
  /\ Line.k = "op"
  /\ LET t  == Line.t
         e  == Line
         o2 == ObAfter(ob, e)
         g2 == GhostOp(gh, t, e)
         stepping == ex.drift = 0 /\ th[t].pc \notin {"idle", "ro"}
         n  == Step1(sh, th[t])
         ok == IF stepping THEN EvEq(n.ev, e) /\ n.sh = o2
               ELSE ex.drift # 0 \/ (th[t].pc = "ro" /\ e.op \in ReadOnlyOps /\ sh = o2)
     IN /\ ob' = o2
        /\ gh' = g2
        /\ IF stepping /\ ok
           THEN sh' = n.sh /\ th' = [th EXCEPT ![t] = n.me]
           ELSE UNCHANGED <<sh, th>>
        /\ ex' = LET e1 == IF ok THEN ex ELSE [ex EXCEPT !.drift = l]
                 IN IF Line.op = "get_mut" THEN [e1 EXCEPT !.inplace = TRUE] ELSE e1
        /\ sum' = AddFails([sum EXCEPT !.ops = @ + 1,
                                        !.drifts = IF ok \/ Cardinality(@) >= MaxFails THEN @
                                                   ELSE @ \cup {[line |-> l, sc |-> ex.sc, run |-> ex.run]}],
                           StepFails(o2, g2, l))

DoRet ==
  /\ Line.k = "ret"
  /\ LET t  == Line.t
         r  == Line.r
         g2 == GhostRet(gh, t, r)
         stepping == ex.drift = 0 /\ th[t].pc # "ro"
         ok == IF stepping THEN th[t].pc = "idle" /\ RetEq(th[t].ret, r) ELSE (ex.drift # 0 \/ r.t = "ro")
         quiet == Quiescent(g2)
         o2 == IF Has(Line, "st") THEN ObsOf(Line.st) ELSE ob
         selfok == Has(Line, "st") => (o2 = ob)       \* the log must be self-consistent (tool check)
     IN /\ gh' = g2
        /\ ob' = o2
        /\ th' = [th EXCEPT ![t] = IdleLocal]
        /\ sh' = sh
        /\ ex' = IF ok /\ selfok THEN ex ELSE [ex EXCEPT !.drift = l]
        /\ sum' = AddFails([sum EXCEPT !.drifts = IF (ok /\ selfok) \/ Cardinality(@) >= MaxFails THEN @
                                                   ELSE @ \cup {[line |-> l, sc |-> ex.sc, run |-> ex.run]},
                                        !.quiet = IF quiet THEN @ + 1 ELSE @,
                                        !.retchk = IF stepping /\ ok THEN @ + 1 ELSE @],
                           StepFails(o2, g2, l) \cup (IF quiet THEN QuietFails(o2, g2, l) ELSE {})
                           \cup (IF r.t = "hang" THEN {Fail("HANG", l)} ELSE {})
                           \cup (IF r.t = "panic" THEN {Fail("PANIC", l)} ELSE {}))

DoEnd ==
  /\ Line.k = "end"
  /\ LET o2 == ObsOf(Line.st) IN
     /\ ob' = o2
     /\ sum' = AddFails([sum EXCEPT !.kf = @ \cup gh.kf],
                        (IF o2 = ob /\ ApiOk(Line.st) /\ ListOk(Line.st) THEN {} ELSE {Fail("C01", l)})
                        \cup (IF ~Quiescent(gh) THEN {}
                              ELSE QuietFails(o2, gh, l)
                                   \cup (IF ex.drained /\ ~Mon_C08_drained(o2, gh) THEN {Fail("C08", l)} ELSE {})))
  /\ UNCHANGED <<sh, th, gh, ex>>

Next ==
  /\ l <= Len(Rec)
  /\ l' = l + 1
  /\ (DoReset \/ DoCall \/ DoOp \/ DoRet \/ DoEnd)

Spec == Init /\ [][Next]_vars

(* Acceptance: the whole trace was consumed; the summary is printed for the checker. *)
Done == l = Len(Rec) + 1
Summary == [lines |-> Len(Rec), execs |-> sum.execs, ops |-> sum.ops, quiet |-> sum.quiet, retchk |-> sum.retchk,
            drifts |-> SetToSeq(sum.drifts), fails |-> SetToSeq(sum.fails), kf |-> SetToSeq(sum.kf \cup gh.kf)]
EmitSummary == Done => PrintT(<<"SUMMARY", ToJson(Summary)>>)
Consumed == TLCGet("stats").diameter = Len(Rec) + 1
=============================================================================
