#!/usr/bin/env python3
"""Regenerates /verif/MANIFEST.json from the table below."""
import json, os
V = os.path.dirname(os.path.dirname(os.path.abspath(__file__)))

SEQ_NOTE = ("Trusted: TLC, the shim (pass-through wrappers), the harness observer. Bounds: model histories <= 4 (quick) / 5 (thorough) calls over ids <= 3 and one "
            "kind representative per behaviour class; beyond them random recorded histories of 15-45 calls over all 7 kinds, judged call by call by the same TLA+ predicates. "
            "Quantities < 2^30 (TLC integers). Ids unique among resting orders; orders carry the level price.")
CONC_NOTE = ("Trusted: TLC, the shim, the baton scheduler (sequential consistency at the grain of one atomic/map/queue call; DashMap/SegQueue/atomics linearizable). "
             "Bounds: 2 threads x 1-2 calls (quick), 3 threads (thorough) on a pre-loaded book of Standard/Iceberg/Reserve; real schedules by DFS with pre-emption bound 2/3 and PCT.")

CHECKS = {
 "C01": ("model_checking", "TLC proves aggregates = sums over the resting orders after every call of every bounded history of the TLA+ level model (macro grain derived from the micro-step semantics); every model history is replayed in the real crate and random recorded histories are validated call by call by TLC against the same model and the same predicate.", "TLA+ model (TLC) + trace validation + replay", SEQ_NOTE, "6 C01"),
 "C02": ("model_checking", "TLC checks the per-match accounting predicate (executed+remaining, completion flag, transaction fields, fresh ids, filled list, per-id conservation) on every match of every bounded model history and on every match recorded from the real crate.", "TLA+ model (TLC) + trace validation + replay", SEQ_NOTE, "6 C02"),
 "C03": ("model_checking", "TLC explores every interleaving of the micro-step model for every program in the scenario set and checks conservation at quiescence; one schedule per distinct terminal model state is replayed in the real crate under the baton scheduler and DFS/PCT schedules of the real code are validated event by event with the event-driven conservation ghost.", "TLA+ model (TLC, all interleavings) + scheduled replay + trace validation", CONC_NOTE, "6 C03"),
 "C04": ("model_checking", "Time priority is judged per call on the effective arrival order (order transition + maker sequence vs the ideal sweep); TLC shows on all bounded histories that the only deviations of the code's design are the two listed known findings, and evaluates the same predicate on recorded real histories.", "TLA+ model (TLC) + trace validation + replay", SEQ_NOTE, "6 C04"),
 "C05": ("model_checking", "TLC checks the documented rule on the full small grid of orders x incoming quantities of the TLA+ transcription of match_against; Apalache proves it for ALL non-negative integers (64-bit included); the real match_against is run on exactly the model-checked grid (validated by TLC, set equality of inputs) and on 64-bit boundary inputs (validated by Apalache against the same operator).", "TLA+ rule (TLC grid + Apalache symbolic) + validation of recorded match_against calls", "Trusted: TLC, Apalache/z3, ApaMatch tied to Orders.tla by ApaEquiv (TLC, grid + perturbed results). Precondition displayed+hidden <= u64::MAX.", "6 C05"),
 "C06": ("model_checking", "Termination is the fuel-bounded RunCall of the micro-step model never running out of fuel on any reachable state x match size (the unfixed instance does); on the real crate a step budget in the scheduler hook turns a spin into a recorded Hang. The two return conditions are evaluated on every model and every recorded match.", "TLA+ model (TLC) + trace validation + replay with step budget", SEQ_NOTE, "6 C06"),
 "C07": ("model_checking", "Per-call predicate for all five update kinds, present/absent ids, equal/different prices and read-only calls (full-state purity), checked by TLC on the model and on recorded real histories.", "TLA+ model (TLC) + trace validation + replay", SEQ_NOTE, "6 C07"),
 "C08": ("model_checking", "Ticket-coverage invariant in every state of every interleaving plus the drained-book condition after a final draining match, in the model and on recorded/replayed real executions.", "TLA+ model (TLC, all interleavings) + scheduled replay + trace validation", CONC_NOTE, "6 C08"),
 "C12": ("model_checking", "Range invariant on the three aggregates in EVERY state of every interleaving of the model; on the real crate the observer reads the aggregates after every hooked step (stop-the-world) and TLC evaluates the invariant on every recorded line.", "TLA+ model (TLC, all interleavings) + scheduled replay + trace validation", CONC_NOTE, "6 C12"),
 "C13": ("model_checking", "Not-found truthfulness and finality of a successful cancel as event-driven ghost predicates, in every interleaving of the model and on recorded real executions; the hand-over window is a listed known finding identified by its causal pattern.", "TLA+ model (TLC, all interleavings) + scheduled replay + trace validation", CONC_NOTE, "6 C13"),
 "C14": ("model_checking", "Uniqueness of issued transaction ids with concurrent matchers sharing one generator (counter step is a hooked, schedulable operation), in the model and on recorded executions; ids are mapped back to v5(namespace, n).", "TLA+ model (TLC, all interleavings) + scheduled replay + trace validation", CONC_NOTE, "6 C14"),
 "C19": ("model_checking", "TLC checks the per-call FIFO predicate (ideal queue ghost) on every call sequence up to 6 (quick) / 8 (thorough) calls over 3 ids of the TLA+ queue model; all model sequences are replayed on the real OrderQueue and random sequences plus the construction paths (list, text, JSON) are validated by TLC; re-push after removal is a listed known finding identified by its pattern.", "TLA+ model (TLC) + trace validation + replay", "Trusted: TLC, shim, harness. Ids pushed once or re-pushed after removal.", "6 C19"),
 "C15": ("model_checking", "Statistics = event counts at quiescence; the concurrent model run has every statistics fetch_add as its own step.", "TLA+ model (TLC, all interleavings) + scheduled replay + trace validation", CONC_NOTE, "6 C15"),
}

def main():
    props = [json.loads(l)["id"] for l in open(os.path.join(V, "properties.jsonl"))]
    pending = json.load(open(os.path.join(V, "lib", "pending.json"))) if os.path.exists(os.path.join(V, "lib", "pending.json")) else {}
    checks = []
    for p in props:
        if p in CHECKS:
            cat, text, tech, note, ref = CHECKS[p]
            checks.append({"property_id": p, "quick_cmd": "./check %s --tier quick" % p, "thorough_cmd": "./check %s --tier thorough" % p,
                           "evidence_file": "/verif/evidence/%s.json" % p, "replay_cmd_template": "./check %s --replay {path}" % p,
                           "engine": "tla-level", "level_claimed": {"category": cat, "text": text, "design_ref": "DESIGN.md section " + ref},
                           "level_note": note, "technique": tech})
    m = {"version": 1,
         "setup_cmd": "./setup.sh",
         "hooks": {"guard": "pricelevel_verif", "enable": "rustflags --cfg pricelevel_verif in /verif/harness/.cargo/config.toml (the harness has a path dependency on /repo)",
                   "baseline_off_cmd": "cd /repo && cargo test --workspace --no-fail-fast --offline",
                   "source_commits": ["d5ff424", "1b4be5e", "e2d9c12"], "add_only": True},
         "engines": [{"name": "tla-level", "path": "/verif/spec", "serves_properties": sorted(CHECKS.keys()),
                      "kind_free_text": "explicit TLA+ specification (spec/*.tla) checked by TLC; bound to the code by trace validation (Trace*.tla) of recordings made by the Rust harness under a baton scheduler, and by replay of TLC-generated behaviours"}],
         "checks": checks,
         "notes": "exit 0 = held (KNOWN-FINDING lines for findings listed in known_findings.json), 1 = VIOLATION line + replay file, 2 = tool error/timeout/tree does not build. VERIF_SEED honoured.",
         "not_applicable": [{"property_id": p, "reason": pending.get(p, "check under construction in this round; see DESIGN.md section 6")} for p in props if p not in CHECKS]}
    json.dump(m, open(os.path.join(V, "MANIFEST.json"), "w"), indent=1)

if __name__ == "__main__":
    main()
