"""Checks decided by the Level specification: C01 C02 C04 C06 C07 C15 (sequential grain) and
C03 C08 C12 C13 C14 C15 (concurrent grain)."""
import json, os
from common import *
import scen

DEV_DEFAULT = {"DevPlainNoReduce": "FALSE", "DevAmendStaleLookup": "FALSE", "DevZeroDisplaySpin": "FALSE", "DevStatsOwnPrice": "FALSE"}

# which trace-monitor tags decide which property
CONC_MON = {"C03": {"C03", "C01", "PANIC"}, "C08": {"C08", "HANG", "PANIC"}, "C12": {"C12"}, "C13": {"C13"},
            "C14": {"C14"}, "C15": {"C15"}}
CONC_INV = {"C03": ["Inv_C03", "Inv_C08drain", "Inv_NoBad"], "C08": ["Inv_C08cover", "Inv_C08drain"], "C12": ["Inv_C12"],
            "C13": ["Inv_C13"], "C14": ["Inv_C14"], "C15": ["Inv_C15"]}
SEQ_MON = {"C01": {"C01", "PANIC"}, "C02": {"C02"}, "C04": {"C04"}, "C06": {"C06", "HANG"}, "C07": {"C07"}, "C15": {"C15"}}
SEQ_INV = {"C01": ["Inv_C01"], "C02": ["Inv_C02"], "C04": ["Inv_C04", "Inv_Legit"], "C06": ["Inv_C06"], "C07": ["Inv_C07"],
           "C15": ["Inv_C15"]}
KF_OF = {"C04": {"KF-C04-1", "KF-C04-2"}, "C13": {"KF-C13-1"}}
KF_WHAT = {"KF-C04-1": "a partially filled maker was re-queued at the tail and lost its place",
           "KF-C04-2": "an order inherited the queue position of a stale ticket",
           "KF-C13-1": "cancel/amend answered not-found while a matcher/amender held the order and then put it back"}

ALL_CONC_INV = ["Inv_C12", "Inv_C08cover", "Inv_C03", "Inv_C08drain", "Inv_C13", "Inv_C14", "Inv_C15", "Inv_NoBad"]


def conc_cfg(work, name, mod_scen, invs, stats_micro=False, emit=False, dev=None):
    d = dict(DEV_DEFAULT)
    d.update(dev or {})
    lines = ["SPECIFICATION Spec", "CONSTANTS", "  Ids <- GenIds", "  Price = %d" % scen.PRICE,
             "  StatsMicro = %s" % ("TRUE" if stats_micro else "FALSE"), "  StatsCount = TRUE"]
    lines += ["  %s = %s" % kv for kv in d.items()]
    lines += ["  Scenarios <- GenScenarios", "  EmitReplays = %s" % ("TRUE" if emit else "FALSE"), "  TrackHist = TRUE", "VIEW View"]
    lines += ["INVARIANT " + i for i in invs]
    if emit:
        lines.append("INVARIANT Inv_Emit")
    lines.append("CHECK_DEADLOCK FALSE")
    p = work.path(name + ".cfg")
    open(p, "w").write("\n".join(lines) + "\n")
    return p


def gen_module(work, name, text):
    # generated modules live next to the specification so that EXTENDS resolves
    p = os.path.join(SPEC, name + ".tla")
    open(p, "w").write(text)
    return p


def _schedules(trace):
    """(sc, run) -> exact schedule taken, from the `end` lines of a level recording"""
    out, cur = {}, None
    if not trace:
        return out
    for line in open(trace):
        if line.startswith('{"k":"reset"') or '"k":"reset"' in line[:40]:
            d = json.loads(line)
            cur = (d.get("sc"), d.get("run"))
        elif '"k":"end"' in line[:40] or line.startswith('{"k":"end"'):
            d = json.loads(line)
            if cur is not None and "sched" in d:
                out[cur] = d["sched"]
    return out


def classify_tv(res, summary, mons, kfset, scen_of, what, trace=None, spec="level"):
    """turn a trace-validation summary into violations / known findings"""
    scheds = None
    for f in summary["fails"]:
        if f["mon"] in mons:
            sc = dict(scen_of(f["sc"]))
            if trace and sc.get("log", "micro") == "micro" and "threads" in sc:
                if scheds is None:
                    scheds = _schedules(trace)
                seq = scheds.get((f["sc"], f["run"]))
                if seq is not None:
                    sc["sched"] = {"mode": "fixed", "seq": seq, "skip_stats": False}
                    sc["drain"] = False if len(seq) and max(seq) > len(sc["threads"]) and False else sc.get("drain", False)
            res.violation("%s: monitor %s failed at trace line %d (scenario %d, run %d)" % (what, f["mon"], f["line"], f["sc"], f["run"]),
                          {"kind": what, "driver": "level", "spec": spec, "scenario": sc, "line": f["line"], "run": f["run"], "monitor": f["mon"]})
    for k in summary["kf"]:
        if k in kfset:
            res.kf_seen[k] = KF_WHAT.get(k, k)


def check_conc(prop, tier):
    res = Result(prop, tier, "model_checking")
    work = Work(prop)
    rng = Rng(seed() * 7919 + 13)
    try:
        res.add(build_s=round(build_harness(), 1))
        scs = scen.conc_scenarios(tier, rng)
        modname = "GenConc_%s_%d" % (prop, os.getpid())
        modpath = gen_module(work, modname, scen.conc_module(modname, scs))
        try:
            # 1. exhaustive model check of the property on every interleaving of every scenario
            stats_micro = prop == "C15"
            mc_scs = scs if not stats_micro else scs[:40]
            if stats_micro:
                open(modpath, "w").write(scen.conc_module(modname, mc_scs))
            cfg = conc_cfg(work, "mc", modname, CONC_INV[prop], stats_micro=stats_micro, emit=not stats_micro)
            r = require_ok(tlc(modname, cfg, work, workers=8, timeout=3000), "model check of %s" % prop)
            res.add(states=r["distinct"], transitions=r["generated"], depth=r["depth"], mc_wall_s=round(r["wall"], 1),
                    mc_scenarios=len(mc_scs), checker_cmd="tlc LevelConc (%s) INVARIANTS %s" % (modname, " ".join(CONC_INV[prop])))
            replays = r["prints"].get("REPLAY", [])
            if stats_micro:
                open(modpath, "w").write(scen.conc_module(modname, scs))
                cfg2 = conc_cfg(work, "mc2", modname, ["Inv_C03"], emit=True)
                r2 = require_ok(tlc(modname, cfg2, work, workers=8, timeout=3000), "replay generation")
                replays = r2["prints"].get("REPLAY", [])
            # 2. non-vacuity: the witnesses the model is known to contain
            if prop == "C13":
                cfgw = conc_cfg(work, "mcw", modname, ["Inv_C13raw"])
                rw = tlc(modname, cfgw, work, workers=8, timeout=3000)
                if "Inv_C13raw" not in rw["violated"]:
                    raise ToolError("the model no longer contains the hand-over window (D8): C13 model check would be vacuous")
                res.add(witness_D8_depth=rw["depth"])
            if prop in ("C03", "C12") and tier == "thorough":
                cfgw = conc_cfg(work, "mcw", modname, CONC_INV[prop], dev={"DevAmendStaleLookup": "TRUE"})
                rw = tlc(modname, cfgw, work, workers=8, timeout=3000)
                if not rw["violated"]:
                    raise ToolError("regression witness: the model instance with the stale-lookup amend (D3) must violate %s" % prop)
                res.add(witness_D3=rw["violated"][0])
            if tier == "thorough":
                # beyond the exhaustive bounds: random behaviours of 4 threads x 2-3 calls on a 5-order book
                wide = scen.wide_conc_scenarios(rng, 6)
                open(modpath, "w").write(scen.conc_module(modname, wide).replace("GenIds == 1..4", "GenIds == 1..12"))
                cfgs = conc_cfg(work, "sim", modname, CONC_INV[prop])
                rs = tlc(modname, cfgs, work, workers=8, timeout=1800, simulate="num=600", extra=["-depth", "900"])
                if rs["violated"] or (rs["error"] and rs["error"] != "timeout"):
                    raise ToolError("simulation of the wide model instance: %s %s\n%s" % (rs["error"], rs["violated"], tail(rs["out"], 30)))
                import re as _re
                m = _re.search(r"(\d+) states checked, (\d+) traces generated", rs["out"])
                res.add(simulated_states=int(m.group(1)) if m else 0, simulated_behaviours=int(m.group(2)) if m else 0, simulated_scenarios=len(wide))
        finally:
            os.remove(modpath)

        # 3. specification -> implementation: one schedule per distinct terminal state of the model
        if tier == "quick" and len(replays) > 1200:
            step = len(replays) // 1200 + 1
            replays = replays[::step]
        hs = []
        for rp in replays:
            sc = scs[rp["sc"] - 1]
            hs.append(scen.harness_level_scenario(sc, {"mode": "fixed", "seq": rp["sched"], "skip_stats": True}, drain=True, drain_q=rp["drainq"]))
        h = run_harness("level", hs, work, "rp")
        s = tv(h["trace"], "MCTraceLevel", "TraceLevel", work)
        # final states must be the model's
        ends = trace_lines_of_kind(h["trace"], "end")
        mism = 0
        for rp, e in zip(replays, ends):
            st = e["st"]
            got = {k: st[k] for k in ("vis", "hid", "cnt", "orders", "tickets", "st", "gen")}
            if got != rp["final"]:
                mism += 1
                if mism <= 3:
                    res.notes.append("replay final-state mismatch sc=%d sched=%s" % (rp["sc"], rp["sched"]))
        res.add(replayed_model_behaviours=len(replays), replay_final_mismatch=mism, replay_drifts=len(s["drifts"]),
                traces_validated_against_impl=s["execs"], events_validated=s["lines"])
        classify_tv(res, s, CONC_MON[prop], KF_OF.get(prop, set()), lambda i: hs[i], "replay of model behaviour", trace=h["trace"])
        drift = len(s["drifts"]) + mism
        for rp in replays[:2]:
            res.sample({"scenario": scs[rp["sc"] - 1]["progs"], "schedule": rp["sched"], "model_final": rp["final"]})

        # 4. implementation -> specification: schedules of the real code chosen by the harness
        hs2 = []
        nrand = 6 if tier == "quick" else 15
        for i, sc in enumerate(scs):
            hs2.append(scen.harness_level_scenario(sc, {"mode": "dfs", "pb": 2 if tier == "quick" else 3, "max": 40 if tier == "quick" else 120}))
            hs2.append(scen.harness_level_scenario(sc, {"mode": "pct", "seed": seed() * 1000 + i, "runs": nrand, "d": 3}))
            hs2.append(scen.harness_level_scenario(sc, {"mode": "starve"}))
        for k in range(4, len(hs2), 5):
            # input corners the model cannot carry directly: timestamps far ahead of the clock, ids in the ULID format
            hs2[k]["tsoff"] = str([1800000000000000, (1 << 64) - 100000][(k // 5) % 2])
            hs2[k]["ulid"] = (k // 5) % 4 >= 2
        h2 = run_harness("level", hs2, work, "tv", timeout=3000)
        s2 = tv(h2["trace"], "MCTraceLevel", "TraceLevel", work, timeout=3000)
        res.add(traces_validated_against_impl=s2["execs"], events_validated=s2["lines"], tv_drifts=len(s2["drifts"]),
                quiescent_points_checked=s2["quiet"] + s["quiet"], returns_checked=s2["retchk"] + s["retchk"])
        classify_tv(res, s2, CONC_MON[prop], KF_OF.get(prop, set()), lambda i: hs2[i], "recorded execution", trace=h2["trace"])
        drift += len(s2["drifts"])
        if prop == "C12":
            import order_checks
            order_checks.aggregate_algebra(res, work)
        if prop == "C08":
            import queue_checks
            drift += queue_checks.queue_conc_part(res, work, tier, rng)
        if prop == "C14":
            drift += uuid_part(res, work, tier, rng)
        if prop == "C15":
            # the single-threaded half of the quantifier: random histories over all kinds, judged by LevelSeq!P_C15
            n = 120 if tier == "quick" else 3000
            hq = [scen.seq_scenario(scen.seq_history(rng, rng.range(15, 45), nids=rng.choice([3, 4, 6]), monotone_ts=True, zero_ok=False, vary_px=(k % 2 == 1))) for k in range(n)]
            for k in range(0, n, 2):
                hq[k] = transformed(hq[k], k // 2, scale=False)      # arrival times far ahead of the clock, ULID ids
            # regression witness (D9): the instance that books executions at the maker's own price must violate C15
            cfg9 = seq_cfg(work, "mc9", "MCSeq_quick", ["Inv_C15"], subst={"DevStatsOwnPrice": "TRUE"})
            r9 = tlc("MCSeq", cfg9, work, workers=8, timeout=3000)
            if "Inv_C15" not in r9["violated"]:
                raise ToolError("regression witness: the model instance with DevStatsOwnPrice (D9) must violate Inv_C15")
            r9ok = require_ok(tlc("MCSeq", seq_cfg(work, "mc9ok", "MCSeq_quick", ["Inv_C15"]), work, workers=8, timeout=3000), "sequential model check of C15")
            res.add(states=r9ok["distinct"], transitions=r9ok["generated"], witness_D9="Inv_C15")
            h5 = run_harness("level", hq, work, "c15seq", timeout=3000)
            s5 = tv(h5["trace"], "MCTraceSeq", "TraceSeq", work, timeout=6000)
            res.add(sequential_histories=s5["execs"], sequential_calls=s5["calls"], traces_validated_against_impl=s5["execs"])
            classify_tv(res, s5, {"C15"}, set(), lambda i: hq[i], "recorded single-threaded history", spec="seq")
            drift += len(s5["drifts"])
        if drift and not res.violations:
            # ESCALATION: enumerate many more schedules of the real code on the drifting scenarios
            # the scenarios with the most calls first: consequences of a divergence need follow-up operations
            size = lambda i: sum(len(p) for p in hs2[i]["threads"])
            dsc = sorted({d["sc"] for d in s2["drifts"]}, key=lambda i: (-size(i), i))[:16]
            esc = []
            for i in dsc:
                base = dict(hs2[i])
                esc.append(dict(base, sched={"mode": "dfs", "pb": 3, "max": 1500}))
                esc.append(dict(base, sched={"mode": "pct", "seed": seed() * 31 + i, "runs": 300, "d": 4}))
                esc.append(dict(base, sched={"mode": "starve"}))
            if not esc:
                esc = [dict(hs2[i], sched={"mode": "pct", "seed": seed() * 37 + i, "runs": 40, "d": 4}) for i in range(0, len(hs2), 2)][:40]
            h3 = run_harness("level", esc, work, "esc", timeout=3000)
            s3 = tv(h3["trace"], "MCTraceLevel", "TraceLevel", work, timeout=6000)
            res.add(escalation_executions=s3["execs"], traces_validated_against_impl=s3["execs"], events_validated=s3["lines"])
            classify_tv(res, s3, CONC_MON[prop], KF_OF.get(prop, set()), lambda i: esc[i], "escalation after drift", trace=h3["trace"])
        if drift and not res.violations:
            for d in (s["drifts"] + s2["drifts"])[:3]:
                print("DRIFT property=%s line=%d scenario=%d run=%d (step not explained by the model; monitors hold)" % (prop, d["line"], d["sc"], d["run"]))
            if mism:
                print("DRIFT property=%s: %d replayed model behaviours end in a state other than the model's" % (prop, mism))
            res.level = "exploration"
            res.cov["evaluations"] = s["execs"] + s2["execs"]
            res.cov["distinct_nontrivial"] = s["execs"] + s2["execs"]
            res.cov["rule"] = "executions of the real code under enumerated/PCT schedules with the property monitors on; the model no longer explains every step (drift), so the exhaustive model result does not transfer"
        res.assumptions += ["sequentially consistent interleavings of hooked operations (one DashMap/SegQueue/atomic call = one step)",
                            "DashMap, SegQueue and std atomics are linearizable", "bounded programs: 2-3 threads, 1-2 calls each, quantities <= 9"]
        return res.finish()
    finally:
        work.cleanup()


def uuid_part(res, work, tier, rng):
    """the generator on its own: Uuid.tla model-checked, every interleaving of the real next() enumerated"""
    cfg = os.path.join(SPEC, "mc", "Uuid.cfg")
    r = require_ok(tlc("Uuid", cfg, work, workers=4), "model check of the id generator")
    cfgw = write_cfg(work, "uuidw", "Uuid", subst={"Split": "TRUE"})
    rw = tlc("Uuid", cfgw, work, workers=4)
    if "Unique" not in rw["violated"]:
        raise ToolError("non-vacuity: the split (load; store) generator must violate uniqueness")
    res.add(states=r["distinct"], transitions=r["generated"], uuid_mc_states=r["distinct"])
    hs = []
    for ns in ["nil", "dns", "max", "6ba7b811-9dad-11d1-80b4-00c04fd430c8"]:
        hs.append({"ns": ns, "threads": [2, 2, 2], "sched": {"mode": "all", "max": 200 if tier == "quick" else 5000}})
        hs.append({"ns": ns, "ctor": "serde", "threads": [2, 2], "sched": {"mode": "pct", "seed": seed() + 9, "runs": 5}})
        hs.append({"ns": ns, "threads": [3, 1, 2, 2], "sched": {"mode": "pct", "seed": seed() + 5, "runs": 50 if tier == "quick" else 1000}})
    # "for every number of calls": counters positioned (through the generator's serde form) just below
    # every change of the number of decimal digits and below the binary boundaries
    starts = [10 ** k - 3 for k in range(1, 20)] + [2 ** 32 - 3, 2 ** 53 - 3, 2 ** 63 - 3, 2 ** 64 - 8, 9999 * 10 ** 4 - 2, 10 ** 8 + 10 ** 4 - 2]
    starts += [2 ** k - 3 for k in (8, 16, 24, 31, 40, 48, 56)]         # a sequence number narrowed to fewer bits wraps here
    for i, st in enumerate(starts):
        hs.append({"ns": ["dns", "nil"][i % 2], "start": str(st), "threads": [3, 3], "sched": {"mode": "pct", "seed": seed() + i, "runs": 3 if tier == "quick" else 30}})
    hs.append({"ns": "dns", "threads": [1500 if tier == "quick" else 30000], "sched": {"mode": "random", "seed": 1, "runs": 1}})
    # adversarial: one victim advances a single operation at a time while the others complete whole calls in
    # between (defeats bounded retry loops); every thread takes the victim role once
    hs.append({"ns": "nil", "threads": [2, 40], "sched": {"mode": "starve"}})
    hs.append({"ns": "dns", "threads": [3, 30, 30], "sched": {"mode": "starve"}})
    hs.append({"ns": "max", "start": str(10 ** 4 - 20), "threads": [2, 70], "sched": {"mode": "starve"}})
    h = run_harness("uuid", hs, work, "uuid")
    s = tv(h["trace"], "TraceUuid", "TraceUuid", work)
    res.add(traces_validated_against_impl=s["execs"], events_validated=s["lines"], uuid_calls=s["calls"], uuid_drifts=len(s["drifts"]))
    for f in s["fails"]:
        res.violation("id generator: monitor %s failed at trace line %d (scenario %d, run %d)" % (f["mon"], f["line"], f["sc"], f["run"]),
                      {"driver": "uuid", "scenario": hs[f["sc"]], "line": f["line"], "run": f["run"]})
    if s["drifts"] and not s["fails"]:
        # ESCALATION: the ids are not derived the way the model says (v5 of namespace and counter).  Uniqueness and
        # reproducibility are then only as good as the calls observed: many more calls and counter positions.
        he = []
        for i in range(40):
            st = rng.choice([rng.below(10 ** rng.range(1, 19)), 2 ** rng.range(1, 63) - rng.range(1, 5), 10 ** rng.range(1, 19) - rng.range(1, 40)])
            he.append({"ns": ["dns", "nil", "max"][i % 3], "start": str(st), "threads": [40, 40, 40], "sched": {"mode": "random", "seed": seed() + i, "runs": 2}})
        he.append({"ns": "dns", "threads": [20000], "sched": {"mode": "random", "seed": 2, "runs": 1}})
        he.append({"ns": "nil", "start": str(10 ** 6 - 5000), "threads": [5000, 5000], "sched": {"mode": "random", "seed": 3, "runs": 1}})
        h2 = run_harness("uuid", he, work, "uuidesc", timeout=3000)
        s2 = tv(h2["trace"], "TraceUuid", "TraceUuid", work, timeout=3000)
        res.add(traces_validated_against_impl=s2["execs"], uuid_calls=s2["calls"], uuid_escalation_calls=s2["calls"])
        for f in s2["fails"]:
            res.violation("id generator (escalation after drift): monitor %s failed at trace line %d (scenario %d, run %d)" % (f["mon"], f["line"], f["sc"], f["run"]),
                          {"driver": "uuid", "scenario": he[f["sc"]], "line": f["line"], "run": f["run"]})
    return len(s["drifts"])


def mres_part(res, work, tier):
    """C02, last sentence: a MatchResult built incrementally (MatchResultMod.tla)"""
    cfg = write_cfg(work, "mres", "MatchResultMod", subst={"EmitReplays": "TRUE", "MaxOps": "4" if tier == "quick" else "5"}, add=["INVARIANT Inv_Emit"])
    r = require_ok(tlc("MatchResultMod", cfg, work, workers=4), "model check of incremental match results")
    res.add(states=r["distinct"], transitions=r["generated"], mres_mc_states=r["distinct"])
    cases = [{"init": rp["init"], "ops": rp["ops"]} for rp in r["prints"].get("REPLAY", [])]
    h = run_harness("mres", [{"cases": cases, "random": 300 if tier == "quick" else 20000, "seed": seed()}], work, "mres")
    s = tv(h["trace"], "TraceMres", "TraceMres", work)
    res.add(traces_validated_against_impl=s["lines"], mres_constructions=s["lines"], mres_steps=s["steps"])
    if s["bad"]:
        bad = read_trace_lines(h["trace"])[s["firstbad"] - 1]
        res.violation("an incrementally built MatchResult disagrees with MatchResultMod (%d constructions)" % s["bad"], {"driver": "mres", "case": bad})


def seq_cfg(work, name, base, invs, subst=None, emit=False):
    sub = dict(subst or {})
    sub["EmitReplays"] = "FALSE"
    sub["EmitEdges"] = "TRUE" if emit else "FALSE"     # one history per generated transition (edge cover)
    txt = open(os.path.join(SPEC, "mc", base + ".cfg")).read()
    import re
    txt = re.sub(r"(?m)^\s*INVARIANT\s+\S+\s*$\n?", "", txt)
    for k, v in sub.items():
        txt, n = re.subn(r"(?m)^(\s*%s\s*(=|<-)\s*).*$" % re.escape(k), lambda m: m.group(1) + v, txt)
        if n == 0:
            raise ToolError("cfg %s has no constant %s" % (base, k))
    txt += "\n" + "\n".join("INVARIANT " + i for i in invs) + "\n"
    p = work.path(name + ".cfg")
    open(p, "w").write(txt)
    return p


def transformed(sc, i, scale=True):
    """input corners the model's small numbers cannot carry directly: the harness scales quantities, shifts
    timestamps and switches the id format on the way in and undoes it on the way out (harness/src/model.rs)"""
    if i % 5 == 2:
        sc["pscale"] = 999999999989          # every price (level, orders, requests) x a 40-bit prime, quantities unscaled
    elif scale:
        sc["scale"] = [1 << 40, 999999999989][i % 2]
    sc["tsoff"] = str([0, 1800000000000000, (1 << 64) - 100000][i % 3])     # ms now-ish in microseconds; the 64-bit limit
    sc["ulid"] = (i % 4 == 3)
    # ids 4, 5, 6 carry the same 128 bits as ids 1, 2, 3 in the other id format (different ids, equal bytes)
    sc["twins"] = (i % 4 == 1)
    return sc


def check_seq(prop, tier):
    res = Result(prop, tier, "model_checking")
    work = Work(prop)
    rng = Rng(seed() * 104729 + 7)
    try:
        res.add(build_s=round(build_harness(), 1))
        # 1. every history of the bounded alphabet
        base = "MCSeq_quick" if tier == "quick" else "MCSeq_thorough"
        cfg = seq_cfg(work, "mc", "MCSeq_quick", SEQ_INV[prop], emit=True)
        r = require_ok(tlc("MCSeq", cfg, work, workers=8, timeout=6000), "model check of %s" % prop)
        res.add(states=r["distinct"], transitions=r["generated"], depth=r["depth"], mc_wall_s=round(r["wall"], 1),
                checker_cmd="tlc MCSeq (%s) INVARIANTS %s" % (base, " ".join(SEQ_INV[prop])))
        replays = r["prints"].get("EDGE", [])
        res.add(model_transitions_emitted=len(replays))
        if tier == "thorough":
            # the deeper configuration (ids <= 3, <= 5 calls, ~870k states) is checked without emitting replays
            cfgt = seq_cfg(work, "mct", "MCSeq_thorough", SEQ_INV[prop], emit=False)
            rt = require_ok(tlc("MCSeq", cfgt, work, workers=8, timeout=6000), "model check of %s (thorough bounds)" % prop)
            res.add(states=rt["distinct"], transitions=rt["generated"], depth=rt["depth"], mc_wall_s=round(rt["wall"], 1))
        if tier == "thorough":
            cfgb = seq_cfg(work, "mcb", "MCSeq_quick", SEQ_INV[prop], subst={"Shapes": "ShapesB", "WithUpdates": "TRUE", "MaxLen": "3"}, emit=True)
            rb = require_ok(tlc("MCSeq", cfgb, work, workers=8, timeout=6000), "model check (second kind representatives, all update kinds)")
            res.add(states=rb["distinct"], transitions=rb["generated"])
            replays += rb["prints"].get("EDGE", [])
        # 2. regression witnesses / non-vacuity
        wit = {"C01": ("DevPlainNoReduce", "D1"), "C02": ("DevPlainNoReduce", "D1"), "C06": ("DevZeroDisplaySpin", "D4")}
        # (C15 is decided by check_conc; its sequential regression witness DevStatsOwnPrice / D9 is run there)
        if prop in wit:
            flag, d = wit[prop]
            cfgw = seq_cfg(work, "mcw", "MCSeq_quick", SEQ_INV[prop], subst={flag: "TRUE"})
            rw = tlc("MCSeq", cfgw, work, workers=8, timeout=3000)
            if not rw["violated"]:
                raise ToolError("regression witness: the model instance with %s (%s) must violate %s" % (flag, d, prop))
            res.add(**{"witness_" + d: rw["violated"][0]})
        if prop == "C04":
            cfgw = seq_cfg(work, "mcw", "MCSeq_quick", ["Inv_C04raw"])
            rw = tlc("MCSeq", cfgw, work, workers=8, timeout=3000)
            if "Inv_C04raw" not in rw["violated"]:
                raise ToolError("the model no longer contains the tail re-queue / stale ticket deviations: C04 check would be vacuous")

        if prop == "C01":
            import order_checks
            order_checks.aggregate_algebra(res, work)
        if prop == "C02":
            mres_part(res, work, tier)
            # the lifetime bound (an order never trades more than it brought; a maker was resting) also under
            # concurrency: schedules of the real code on programs with matches, judged by the event-driven
            # conservation ghost of Level.tla
            cs = [c for c in scen.conc_scenarios("quick", rng) if any(o["op"] == "match" for p in c["progs"] for o in p)]
            hc = []
            for i, c in enumerate(cs):
                hc.append(scen.harness_level_scenario(c, {"mode": "dfs", "pb": 2, "max": 30 if tier == "quick" else 300}))
                hc.append(scen.harness_level_scenario(c, {"mode": "starve"}))
            h0 = run_harness("level", hc, work, "c02conc", timeout=3000)
            s0 = tv(h0["trace"], "MCTraceLevel", "TraceLevel", work, timeout=3000)
            res.add(concurrent_executions=s0["execs"], traces_validated_against_impl=s0["execs"])
            classify_tv(res, s0, {"C03"}, set(), lambda i: hc[i], "concurrent execution (over-fill / maker not resting)", trace=h0["trace"])
        if prop == "C06":
            # termination as a temporal property of the micro-step model under weak fairness
            rl = tlc("MCLive", os.path.join(SPEC, "mc", "MCLive.cfg"), work, workers=4, timeout=1500)
            if rl["error"] or "Temporal property" in rl["out"] and "violated" in rl["out"]:
                raise ToolError("liveness check (MCLive: every call returns under weak fairness) failed on the repaired instance\n" + tail(rl["out"], 20))
            cfgl = write_cfg(work, "livew", "MCLive", subst={"DevZeroDisplaySpin": "TRUE"})
            rw = tlc("MCLive", cfgl, work, workers=4, timeout=1500)
            if "Temporal property Terminates was violated" not in rw["out"]:
                raise ToolError("regression witness: the instance with the zero-display spin (D4) must have a non-terminating lasso")
            res.add(states=rl["distinct"], transitions=rl["generated"], liveness_states=rl["distinct"], liveness_witness_D4="lasso found")
        # 3. specification -> implementation: the model's histories replayed in the real code
        cap = 2500 if tier == "quick" else 60000
        if len(replays) > cap:
            step = len(replays) // cap + 1
            replays = replays[rng.below(step)::step]
        hs = [scen.seq_scenario(rp["calls"]) for rp in replays]
        h = run_harness("level", hs, work, "rp")
        s = tv(h["trace"], "MCTraceSeq", "TraceSeq", work, timeout=3000)
        ends = trace_lines_of_kind(h["trace"], "end")
        mism = 0
        for rp, e in zip(replays, ends):
            st = e["st"]
            got = {k: st[k] for k in ("vis", "hid", "cnt", "orders", "tickets", "st", "gen")}
            if got != rp["final"]:
                mism += 1
                if mism <= 3:
                    res.notes.append("replay final-state mismatch calls=%s" % json.dumps(rp["calls"]))
        res.add(replayed_model_behaviours=len(replays), replay_final_mismatch=mism, replay_drifts=len(s["drifts"]),
                traces_validated_against_impl=s["execs"], calls_validated=s["calls"], calls_conforming=s["conform"],
                matches=s["matches"], trades=s["trades"])
        classify_tv(res, s, SEQ_MON[prop], KF_OF.get(prop, set()), lambda i: hs[i], "replay of model history", spec="seq")
        for rp in replays[:2]:
            res.sample({"history": rp["calls"], "model_final": rp["final"]})

        # 4. implementation -> specification: random histories over all kinds and parameters
        n = 150 if tier == "quick" else 4000
        hs2 = []
        for i in range(n):
            # every fourth history: orders whose own price field differs from the level's (add_order does not check it)
            hs2.append(scen.seq_scenario(scen.seq_history(rng, rng.range(15, 45), nids=rng.choice([3, 4, 6]), monotone_ts=(i % 2 == 0), zero_ok=(i % 3 != 0), vary_px=(i % 4 == 1))))
        # SCALED histories: the same kind of history with every quantity multiplied by K (2^40, or a 40-bit prime) on
        # the way into the library and divided by K (exactly) on the way out: the library computes with 40- to 50-bit
        # quantities and ~2^60 executed values, the recording is in the small numbers TLC evaluates
        nsc = 60 if tier == "quick" else 1500
        for i in range(nsc):
            calls = scen.seq_history(rng, rng.range(15, 40), nids=rng.choice([3, 4, 6]), monotone_ts=(i % 2 == 0), zero_ok=(i % 3 != 0), vary_px=(i % 4 in (1, 2)))
            for c in calls:
                if c["op"] == "add" and c["o"]["kind"] == "Reserve" and c["o"]["amt"] == -1:
                    c["o"]["amt"] = rng.choice([1, 2, 5, 80])      # the default amount (80) is a constant: it does not scale
            if prop == "C01" and i % 2 == 0:
                # C01 names "rebuild from a snapshot or serialized form" among the operations: every restore path,
                # with honest and falsified aggregate figures (not in scaled runs: the falsified figures are constants)
                import snap_checks
                hs2.append(transformed(scen.seq_scenario(snap_checks.with_restores(calls, rng, i % 4 == 0)), i, scale=False))
                continue
            hs2.append(transformed(scen.seq_scenario(calls), i))
        # matches whose taker id is the id of an order that may be resting here
        for i in range(20 if tier == "quick" else 400):
            hs2.append(scen.seq_scenario(scen.seq_history(rng, rng.range(15, 40), nids=rng.choice([3, 4]), zero_ok=(i % 2 == 0), self_taker=True)))
        h2 = run_harness("level", hs2, work, "tv", timeout=3000)
        s2 = tv(h2["trace"], "MCTraceSeq", "TraceSeq", work, timeout=6000)
        # levels at other prices (the price is a constant of the specification: one validation run per price)
        price_drift = 0
        for pr in (0, 100003):
            hp = [scen.seq_scenario(scen.seq_history(rng, rng.range(15, 40), nids=rng.choice([3, 4, 6]), monotone_ts=(i % 2 == 0), zero_ok=(i % 3 != 0),
                                                      vary_px=(i % 2 == 1), price=pr), price=pr) for i in range(24 if tier == "quick" else 500)]
            hh = run_harness("level", hp, work, "tvp%d" % pr, timeout=3000)
            sp = tv(hh["trace"], "MCTraceSeq", "TraceSeq", work, timeout=6000, subst={"Price": str(pr)})
            res.add(traces_validated_against_impl=sp["execs"], calls_validated=sp["calls"], calls_conforming=sp["conform"], matches=sp["matches"], trades=sp["trades"])
            classify_tv(res, sp, SEQ_MON[prop], KF_OF.get(prop, set()), lambda i, hp=hp: hp[i], "recorded history at level price %d" % pr, spec="seq")
            price_drift += len(sp["drifts"])
        res.add(traces_validated_against_impl=s2["execs"], calls_validated=s2["calls"], calls_conforming=s2["conform"],
                tv_drifts=len(s2["drifts"]), matches=s2["matches"], trades=s2["trades"], scaled_histories=nsc)
        classify_tv(res, s2, SEQ_MON[prop], KF_OF.get(prop, set()), lambda i: hs2[i], "recorded history", spec="seq")
        res.sample({"random_history": hs2[0]["threads"][0][:12]})
        drift = len(s["drifts"]) + len(s2["drifts"]) + mism + price_drift
        if drift and not res.violations:
            # ESCALATION: some call is not predicted by the model although the property's predicate holds.
            # Continue the drifting histories from the point of divergence with many random continuations
            # over a small id set (the consequence of a divergence usually shows a few calls later).
            esc = []
            for src, summ in ((hs, s), (hs2, s2)):
                for d in summ["drifts"][:40]:
                    calls = src[d["sc"]]["threads"][0]
                    for cut in (len(calls), max(1, len(calls) // 2)):
                        for _ in range(10):
                            esc.append(scen.seq_scenario(calls[:cut] + scen.seq_history(rng, rng.range(5, 14), nids=3, monotone_ts=True, zero_ok=True)))
            if esc:
                h3 = run_harness("level", esc, work, "esc", timeout=3000)
                s3 = tv(h3["trace"], "MCTraceSeq", "TraceSeq", work, timeout=6000)
                res.add(escalation_histories=len(esc), traces_validated_against_impl=s3["execs"], calls_validated=s3["calls"])
                classify_tv(res, s3, SEQ_MON[prop], KF_OF.get(prop, set()), lambda i: esc[i], "escalation after drift", spec="seq")
        if drift and not res.violations:
            for d in (s["drifts"] + s2["drifts"])[:3]:
                print("DRIFT property=%s line=%d scenario=%d (call result/state not predicted by the model; the property's own monitor holds)" % (prop, d["line"], d["sc"]))
            if mism:
                print("DRIFT property=%s: %d replayed model histories end in a state other than the model's" % (prop, mism))
            res.level = "exploration"
            res.cov["evaluations"] = s["calls"] + s2["calls"]
            res.cov["distinct_nontrivial"] = s["execs"] + s2["execs"]
            res.cov["rule"] = "calls of recorded single-threaded histories judged by the property's per-call predicate; the model does not predict every call (drift), so the exhaustive model result does not transfer"
        res.assumptions += ["ids unique among resting orders (driver skips adds of resting ids)", "the orders' own price field differs from the level's in a quarter of the random histories and in one model shape",
                            "quantities < 2^30 in the model (TLC integers); the real code is also run with all quantities scaled by 2^40 / a 40-bit prime (results divided back exactly); per-order 64-bit boundaries are covered by C05, aggregate arithmetic over all 64-bit values by ApaAgg",
                            "bounded model: ids <= 3, history length <= %s, one kind representative per behaviour class per run" % ("4" if tier == "quick" else "5")]
        return res.finish()
    finally:
        work.cleanup()
