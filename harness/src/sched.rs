//! Deterministic baton scheduler over the verification shim's hook.
//!
//! Worker threads register a thread-local index. `before` parks the caller until the controller
//! hands it the baton; exactly one worker runs between two hook calls, so an execution is a
//! sequence of (thread, operation) pairs and is reproduced exactly by replaying the sequence of
//! thread indices. Threads that are not registered pass straight through (no event, no wait).

use pricelevel::verif_shim::{Event, Hook};
use std::cell::Cell;
use std::sync::{Arc, Condvar, Mutex};

thread_local! { pub static WID: Cell<Option<usize>> = const { Cell::new(None) }; }

/// What the controller sees of a parked worker.
#[derive(Clone, Debug)]
pub struct Pending {
    pub oid: usize,
    pub op: &'static str,
}

pub type AfterFn = dyn Fn(usize, &Event, &str) + Send + Sync;

#[derive(Default)]
struct St {
    waiting: Vec<Option<Pending>>,
    done: Vec<bool>,
    running: Option<usize>,
    grant: Option<usize>,
    steps: Vec<usize>,
    budget: usize,
    over_budget: Vec<bool>,
}

pub struct Sched {
    st: Mutex<St>,
    cv: Condvar,
    after: Mutex<Option<Arc<AfterFn>>>,
    /// number of calls each worker has completed in the current execution (maintained by the drivers)
    pub calls_done: Mutex<Vec<usize>>,
}

pub const BUDGET_PANIC: &str = "PLV-STEP-BUDGET";

impl Hook for Sched {
    fn before(&self, ev: &Event) {
        let Some(id) = WID.with(|w| w.get()) else { return };
        let mut g = self.st.lock().unwrap();
        g.steps[id] += 1;
        if g.steps[id] > g.budget {
            g.over_budget[id] = true;
            drop(g);
            std::panic::panic_any(BUDGET_PANIC);
        }
        g.waiting[id] = Some(Pending { oid: ev.oid, op: ev.op });
        if g.running == Some(id) {
            g.running = None;
        }
        self.cv.notify_all();
        while g.grant != Some(id) {
            g = self.cv.wait(g).unwrap();
        }
        g.grant = None;
        g.waiting[id] = None;
        g.running = Some(id);
    }
    fn after(&self, ev: &Event, res: &str) {
        let Some(id) = WID.with(|w| w.get()) else { return };
        let f = self.after.lock().unwrap().clone();
        if let Some(f) = f {
            f(id, ev, res);
        }
    }
}

/// Runs `f` with the calling thread temporarily unregistered (its shared-memory operations are
/// neither scheduled nor logged): used by the observer.
pub fn unregistered<R>(f: impl FnOnce() -> R) -> R {
    let old = WID.with(|w| w.replace(None));
    let r = f();
    WID.with(|w| w.set(old));
    r
}

pub type Job = Box<dyn FnOnce() + Send>;

/// Decides which of the runnable workers performs the next operation.
pub trait Chooser {
    fn choose(&mut self, runnable: &[usize], pending: &[Option<Pending>], last: Option<usize>) -> usize;
}

impl Sched {
    pub fn new() -> Arc<Self> {
        Arc::new(Sched { st: Mutex::new(St::default()), cv: Condvar::new(), after: Mutex::new(None), calls_done: Mutex::new(vec![]) })
    }

    pub fn set_after(&self, f: Option<Arc<AfterFn>>) {
        *self.after.lock().unwrap() = f;
    }

    pub fn reset_steps(&self, id: usize) {
        let mut g = self.st.lock().unwrap();
        if id < g.steps.len() {
            g.steps[id] = 0;
        }
    }

    /// Runs the jobs as workers 0..n under the chooser. Returns the schedule actually taken and,
    /// per worker, whether it ran over the step budget.
    pub fn run(self: &Arc<Self>, jobs: Vec<Job>, budget: usize, chooser: &mut dyn Chooser) -> (Vec<usize>, Vec<bool>) {
        let n = jobs.len();
        *self.calls_done.lock().unwrap() = vec![0; n];
        {
            let mut g = self.st.lock().unwrap();
            *g = St {
                waiting: vec![None; n],
                done: vec![false; n],
                steps: vec![0; n],
                over_budget: vec![false; n],
                budget,
                ..Default::default()
            };
        }
        let mut hs = vec![];
        for (i, j) in jobs.into_iter().enumerate() {
            let s2 = self.clone();
            hs.push(std::thread::spawn(move || {
                WID.with(|w| w.set(Some(i)));
                // park once before doing anything, so that even the thread-local prefix of the
                // first call runs under the baton
                {
                    let mut g = s2.st.lock().unwrap();
                    g.waiting[i] = Some(Pending { oid: usize::MAX, op: "start" });
                    s2.cv.notify_all();
                    while g.grant != Some(i) {
                        g = s2.cv.wait(g).unwrap();
                    }
                    g.grant = None;
                    g.waiting[i] = None;
                    g.running = Some(i);
                }
                let _ = std::panic::catch_unwind(std::panic::AssertUnwindSafe(j));
                let mut g = s2.st.lock().unwrap();
                g.done[i] = true;
                if g.running == Some(i) {
                    g.running = None;
                }
                s2.cv.notify_all();
            }));
        }
        let mut schedule = vec![];
        let mut last: Option<usize> = None;
        loop {
            let mut g = self.st.lock().unwrap();
            while !(g.running.is_none() && g.grant.is_none() && (0..n).all(|i| g.done[i] || g.waiting[i].is_some())) {
                g = self.cv.wait(g).unwrap();
            }
            let runnable: Vec<usize> = (0..n).filter(|&i| !g.done[i]).collect();
            if runnable.is_empty() {
                break;
            }
            // "start" grants are not scheduling decisions: release them in index order
            let c = if let Some(&i) = runnable.iter().find(|&&i| matches!(&g.waiting[i], Some(p) if p.op == "start")) {
                i
            } else {
                let c = chooser.choose(&runnable, &g.waiting, last);
                schedule.push(c);
                last = Some(c);
                c
            };
            g.grant = Some(c);
            g.running = Some(c);
            drop(g);
            self.cv.notify_all();
        }
        for h in hs {
            h.join().unwrap();
        }
        let ob = self.st.lock().unwrap().over_budget.clone();
        (schedule, ob)
    }
}

impl Sched {
    pub fn note_call_done(&self, w: usize) {
        let mut g = self.calls_done.lock().unwrap();
        if w < g.len() {
            g[w] += 1;
        }
    }
}

/// Adversarial schedule: the victim advances one operation at a time; between two operations of the
/// victim some other worker runs one complete call (round-robin over the others). This is the
/// schedule that defeats retry loops (compare-exchange with a bounded number of attempts) and
/// maximises the number of foreign calls inside every window of the victim.
pub struct Starve {
    pub sched: Arc<Sched>,
    pub victim: usize,
    pub other: Option<(usize, usize)>, // (worker, calls_done target)
    pub next_other: usize,
    pub victim_turn: bool,
}
impl Chooser for Starve {
    fn choose(&mut self, runnable: &[usize], _p: &[Option<Pending>], _l: Option<usize>) -> usize {
        let done = self.sched.calls_done.lock().unwrap().clone();
        if let Some((w, target)) = self.other {
            if runnable.contains(&w) && done.get(w).copied().unwrap_or(0) < target {
                return w;
            }
            self.other = None;
            self.victim_turn = true;
        }
        if self.victim_turn && runnable.contains(&self.victim) {
            self.victim_turn = false;
            return self.victim;
        }
        // pick the next other worker and let it complete one call
        let others: Vec<usize> = runnable.iter().copied().filter(|&i| i != self.victim).collect();
        if others.is_empty() {
            return runnable[0];
        }
        let w = others[self.next_other % others.len()];
        self.next_other += 1;
        self.other = Some((w, done.get(w).copied().unwrap_or(0) + 1));
        w
    }
}

/// Tiny deterministic PRNG (splitmix64).
#[derive(Clone)]
pub struct Rng(pub u64);
impl Rng {
    pub fn next(&mut self) -> u64 {
        self.0 = self.0.wrapping_add(0x9E3779B97F4A7C15);
        let mut z = self.0;
        z = (z ^ (z >> 30)).wrapping_mul(0xBF58476D1CE4E5B9);
        z = (z ^ (z >> 27)).wrapping_mul(0x94D049BB133111EB);
        z ^ (z >> 31)
    }
    pub fn below(&mut self, n: usize) -> usize {
        (self.next() % (n as u64)) as usize
    }
    pub fn range(&mut self, lo: u64, hi: u64) -> u64 {
        lo + self.next() % (hi - lo + 1)
    }
    pub fn chance(&mut self, num: u64, den: u64) -> bool {
        self.next() % den < num
    }
}
