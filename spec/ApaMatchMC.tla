----------------------------- MODULE ApaMatchMC -----------------------------
(* Apalache root module: binds the 64-bit bound (a literal TLC cannot parse). *)
EXTENDS ApaMatch
ConstInit == U64MAX = 18446744073709551615
(* non-vacuity: the rule with "threshold 0 counts as 1" dropped must be refuted *)
InvNeg == LET r == AMatch(o, q) IN
          (o.kind = "Reserve" /\ o.vis > q) =>
             (r.hr > 0 <=> ((o.vis - q) < o.thr /\ o.auto /\ o.hid > 0))
=============================================================================
