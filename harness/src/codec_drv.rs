//! C16 / C17 / C18: drives every text (Display/FromStr) and JSON (serde) codec of the crate.
//!  - "c" lines: value (numbers as strings), printed text, parsed-back value, JSON, parsed-back
//!    value; validated by spec/TraceCodec.tla against the encoders of spec/Codec.tla.
//!  - "p" lines: character-level fault enumeration on every generated encoding fed to every
//!    parser; outcome counts and the first panicking input.

use crate::sched::Rng;
use pricelevel::*;
use serde_json::{json, Value};
use std::str::FromStr;
use std::sync::Arc;

const M: u64 = u64::MAX;
// boundary values: digit-count changes, binary widths, the f64 integer limit, the signed limit, and the
// library's own documented constant (default replenish amount 80) with its neighbours
const BIG: [u64; 24] = [0, 1, 9, 10, 79, 80, 81, 99, 100, 255, 256, 65535, 65536, (1 << 31) - 1, 1 << 32, (1 << 53) - 1, 1 << 53, (1 << 53) + 1,
                        (1 << 63) - 1, 1 << 63, (1 << 63) + 1, M / 10, M - 1, M];

fn s<T: ToString>(x: T) -> Value {
    json!(x.to_string())
}

fn tif_v(t: &TimeInForce) -> Value {
    match t {
        TimeInForce::Gtc => json!({"t": "GTC", "n": ""}),
        TimeInForce::Ioc => json!({"t": "IOC", "n": ""}),
        TimeInForce::Fok => json!({"t": "FOK", "n": ""}),
        TimeInForce::Day => json!({"t": "DAY", "n": ""}),
        TimeInForce::Gtd(n) => json!({"t": "GTD", "n": n.to_string()}),
    }
}

// Projections must not go through the library's own Display (the code under test): a lossy Display
// would blind the comparison of a value with the value parsed back from its text.
fn side_v(x: Side) -> Value {
    json!(match x {
        Side::Buy => "BUY",
        Side::Sell => "SELL",
    })
}

/// canonical rendering of an order id by the uuid / ulid crates (not the library's Display)
fn oid_s(id: &OrderId) -> Value {
    json!(match id {
        OrderId::Uuid(u) => u.as_hyphenated().to_string(),
        OrderId::Ulid(u) => u.to_string(),
    })
}

fn peg_v(x: &PegReferenceType) -> Value {
    json!(match x {
        PegReferenceType::BestBid => "BestBid",
        PegReferenceType::BestAsk => "BestAsk",
        PegReferenceType::MidPrice => "MidPrice",
        PegReferenceType::LastTrade => "LastTrade",
    })
}

pub fn order_v(o: &OrderType<()>) -> Value {
    let mut v = json!({"kind": "", "id": oid_s(&o.id()), "price": s(o.price()), "vis": s(o.visible_quantity()), "hid": "", "side": side_v(o.side()),
                       "ts": s(o.timestamp()), "tif": tif_v(&o.time_in_force()), "thr": "", "amt": "", "auto": "", "trail": "", "lastref": "", "off": "", "peg": ""});
    match o {
        OrderType::Standard { .. } => v["kind"] = json!("Standard"),
        OrderType::PostOnly { .. } => v["kind"] = json!("PostOnly"),
        OrderType::MarketToLimit { .. } => v["kind"] = json!("MarketToLimit"),
        OrderType::IcebergOrder { hidden_quantity, .. } => {
            v["kind"] = json!("IcebergOrder");
            v["hid"] = s(hidden_quantity);
        }
        OrderType::TrailingStop { trail_amount, last_reference_price, .. } => {
            v["kind"] = json!("TrailingStop");
            v["trail"] = s(trail_amount);
            v["lastref"] = s(last_reference_price);
        }
        OrderType::PeggedOrder { reference_price_offset, reference_price_type, .. } => {
            v["kind"] = json!("PeggedOrder");
            v["off"] = s(reference_price_offset);
            v["peg"] = peg_v(reference_price_type);
        }
        OrderType::ReserveOrder { hidden_quantity, replenish_threshold, replenish_amount, auto_replenish, .. } => {
            v["kind"] = json!("ReserveOrder");
            v["hid"] = s(hidden_quantity);
            v["thr"] = s(replenish_threshold);
            v["amt"] = json!(replenish_amount.map_or("None".to_string(), |a| a.to_string()));
            v["auto"] = s(auto_replenish);
        }
    }
    v
}

fn update_v(u: &OrderUpdate) -> Value {
    match u {
        OrderUpdate::UpdatePrice { order_id, new_price } => json!({"kind": "UpdatePrice", "id": oid_s(order_id), "price": s(new_price), "qty": "", "side": ""}),
        OrderUpdate::UpdateQuantity { order_id, new_quantity } => json!({"kind": "UpdateQuantity", "id": oid_s(order_id), "price": "", "qty": s(new_quantity), "side": ""}),
        OrderUpdate::UpdatePriceAndQuantity { order_id, new_price, new_quantity } => json!({"kind": "UpdatePriceAndQuantity", "id": oid_s(order_id), "price": s(new_price), "qty": s(new_quantity), "side": ""}),
        OrderUpdate::Cancel { order_id } => json!({"kind": "Cancel", "id": oid_s(order_id), "price": "", "qty": "", "side": ""}),
        OrderUpdate::Replace { order_id, price, quantity, side } => json!({"kind": "Replace", "id": oid_s(order_id), "price": s(price), "qty": s(quantity), "side": side_v(*side)}),
    }
}

fn tx_v(t: &Transaction) -> Value {
    json!({"txid": s(t.transaction_id), "taker": oid_s(&t.taker_order_id), "maker": oid_s(&t.maker_order_id), "price": s(t.price), "qty": s(t.quantity),
           "side": side_v(t.taker_side), "ts": s(t.timestamp)})
}

fn mres_v(m: &MatchResult) -> Value {
    json!({"id": oid_s(&m.order_id), "rem": s(m.remaining_quantity), "complete": s(m.is_complete),
           "txs": m.transactions.as_vec().iter().map(tx_v).collect::<Vec<_>>(), "filled": m.filled_order_ids.iter().map(oid_s).collect::<Vec<_>>()})
}

fn stats_v(x: &PriceLevelStatistics) -> Value {
    json!({"added": s(x.orders_added.peek()), "removed": s(x.orders_removed.peek()), "exec": s(x.orders_executed.peek()), "qty": s(x.quantity_executed.peek()),
           "val": s(x.value_executed.peek()), "last": s(x.last_execution_time.peek()), "first": s(x.first_arrival_time.peek()), "wait": s(x.sum_waiting_time.peek())})
}

fn level_v(l: &PriceLevel) -> Value {
    json!({"price": s(l.price()), "vis": s(l.visible_quantity()), "hid": s(l.hidden_quantity()), "cnt": s(l.order_count()),
           "orders": l.iter_orders().iter().map(|o| order_v(o)).collect::<Vec<_>>()})
}

fn snap_v(x: &PriceLevelSnapshot) -> Value {
    json!({"price": s(x.price), "vis": s(x.visible_quantity), "hid": s(x.hidden_quantity), "cnt": s(x.order_count),
           "orders": x.orders.iter().map(|o| order_v(o)).collect::<Vec<_>>()})
}

fn summ_v(x: &PriceLevelSnapshot) -> Value {
    json!({"price": s(x.price), "vis": s(x.visible_quantity), "hid": s(x.hidden_quantity), "cnt": s(x.order_count)})
}

// ---------------------------------------------------------------------------------------------
// value generators

fn ids(rng: &mut Rng) -> OrderId {
    match rng.below(6) {
        0 => OrderId::nil(),
        1 => OrderId::from_u64(rng.next()),
        2 => OrderId::from_uuid(uuid::Uuid::from_u128(((rng.next() as u128) << 64) | rng.next() as u128)),
        3 => OrderId::from_ulid(ulid::Ulid::from(((rng.next() as u128) << 64) | rng.next() as u128)),
        4 => OrderId::from_ulid(ulid::Ulid::from(0u128)),
        _ => OrderId::from_uuid(uuid::Uuid::max()),
    }
}

fn num(rng: &mut Rng) -> u64 {
    if rng.chance(1, 2) {
        BIG[rng.below(BIG.len())]
    } else {
        rng.next() >> rng.below(64)
    }
}

fn tif(rng: &mut Rng) -> TimeInForce {
    match rng.below(6) {
        0 => TimeInForce::Gtc,
        1 => TimeInForce::Ioc,
        2 => TimeInForce::Fok,
        3 => TimeInForce::Day,
        _ => TimeInForce::Gtd(num(rng)),
    }
}

fn side(rng: &mut Rng) -> Side {
    if rng.chance(1, 2) {
        Side::Buy
    } else {
        Side::Sell
    }
}

/// every numeric field of the order := b (replenish amount Some(b), or None when `none`)
fn set_all(o: &mut OrderType<()>, b: u64, none: bool) {
    match o {
        OrderType::Standard { price, quantity, timestamp, .. } | OrderType::PostOnly { price, quantity, timestamp, .. } | OrderType::MarketToLimit { price, quantity, timestamp, .. } => {
            *price = b;
            *quantity = b;
            *timestamp = b;
        }
        OrderType::IcebergOrder { price, visible_quantity, hidden_quantity, timestamp, .. } => {
            *price = b;
            *visible_quantity = b;
            *hidden_quantity = b;
            *timestamp = b;
        }
        OrderType::TrailingStop { price, quantity, timestamp, trail_amount, last_reference_price, .. } => {
            *price = b;
            *quantity = b;
            *timestamp = b;
            *trail_amount = b;
            *last_reference_price = b;
        }
        OrderType::PeggedOrder { price, quantity, timestamp, reference_price_offset, .. } => {
            *price = b;
            *quantity = b;
            *timestamp = b;
            *reference_price_offset = b as i64;
        }
        OrderType::ReserveOrder { price, visible_quantity, hidden_quantity, timestamp, replenish_threshold, replenish_amount, .. } => {
            *price = b;
            *visible_quantity = b;
            *hidden_quantity = b;
            *timestamp = b;
            *replenish_threshold = b;
            *replenish_amount = if none { None } else { Some(b) };
        }
    }
}

pub fn order(rng: &mut Rng, kind: usize) -> OrderType<()> {
    let (id, price, side, timestamp, time_in_force) = (ids(rng), num(rng), side(rng), num(rng), tif(rng));
    let q = num(rng);
    match kind % 7 {
        0 => OrderType::Standard { id, price, quantity: q, side, timestamp, time_in_force, extra_fields: () },
        1 => OrderType::IcebergOrder { id, price, visible_quantity: q, hidden_quantity: num(rng), side, timestamp, time_in_force, extra_fields: () },
        2 => OrderType::PostOnly { id, price, quantity: q, side, timestamp, time_in_force, extra_fields: () },
        3 => OrderType::TrailingStop { id, price, quantity: q, side, timestamp, time_in_force, trail_amount: num(rng), last_reference_price: num(rng), extra_fields: () },
        4 => OrderType::PeggedOrder {
            id,
            price,
            quantity: q,
            side,
            timestamp,
            time_in_force,
            reference_price_offset: [0, 1, -1, i64::MIN, i64::MAX, -5][rng.below(6)],
            reference_price_type: [PegReferenceType::BestBid, PegReferenceType::BestAsk, PegReferenceType::MidPrice, PegReferenceType::LastTrade][rng.below(4)],
            extra_fields: (),
        },
        5 => OrderType::MarketToLimit { id, price, quantity: q, side, timestamp, time_in_force, extra_fields: () },
        _ => OrderType::ReserveOrder {
            id,
            price,
            visible_quantity: q,
            hidden_quantity: num(rng),
            side,
            timestamp,
            time_in_force,
            replenish_threshold: num(rng),
            replenish_amount: if rng.chance(1, 3) { None } else { Some(num(rng)) },
            auto_replenish: rng.chance(1, 2),
            extra_fields: (),
        },
    }
}

fn small_order(rng: &mut Rng, i: u64, kind: usize) -> OrderType<()> {
    // for levels: quantities whose sums stay inside u64
    let mut o = order(rng, kind);
    let id = if rng.chance(1, 4) { OrderId::from_ulid(ulid::Ulid::from((i as u128) << 64 | 7)) } else { OrderId::from_u64(i) };
    let q = rng.range(0, 1 << 40);
    let h = rng.range(0, 1 << 40);
    let ts = rng.range(0, 5);
    match &mut o {
        OrderType::Standard { id: a, quantity, timestamp, .. } | OrderType::PostOnly { id: a, quantity, timestamp, .. } | OrderType::MarketToLimit { id: a, quantity, timestamp, .. } => {
            *a = id;
            *quantity = q;
            *timestamp = ts;
        }
        OrderType::TrailingStop { id: a, quantity, timestamp, .. } | OrderType::PeggedOrder { id: a, quantity, timestamp, .. } => {
            *a = id;
            *quantity = q;
            *timestamp = ts;
        }
        OrderType::IcebergOrder { id: a, visible_quantity, hidden_quantity, timestamp, .. } | OrderType::ReserveOrder { id: a, visible_quantity, hidden_quantity, timestamp, .. } => {
            *a = id;
            *visible_quantity = q;
            *hidden_quantity = h;
            *timestamp = ts;
        }
    }
    o
}

fn transaction(rng: &mut Rng) -> Transaction {
    let mut t = Transaction::new(uuid::Uuid::from_u128(((rng.next() as u128) << 64) | rng.next() as u128), ids(rng), ids(rng), num(rng), num(rng), side(rng));
    t.timestamp = num(rng);
    if rng.chance(1, 5) {
        t.transaction_id = uuid::Uuid::nil();
    }
    t
}

fn level(rng: &mut Rng, n: usize) -> PriceLevel {
    let l = PriceLevel::new(num(rng));
    for i in 0..n {
        let k = rng.below(7);
        l.add_order(small_order(rng, i as u64 + 1, k));
    }
    l
}

// ---------------------------------------------------------------------------------------------

fn guard<T>(f: impl FnOnce() -> T) -> Option<T> {
    std::panic::catch_unwind(std::panic::AssertUnwindSafe(f)).ok()
}

struct Enc {
    ty: &'static str,
    text: Option<String>,
    json: Option<String>,
}

fn cline(out: &mut Vec<String>, encs: &mut Vec<Enc>, ty: &'static str, v: Value, text: Option<(String, Option<Value>)>, js: Option<(String, Option<Value>)>, extra: Value) {
    let mut line = json!({"k": "c", "ty": ty, "v": v});
    let mut e = Enc { ty, text: None, json: None };
    if let Some((t, back)) = text {
        line["text"] = json!(t);
        line["tok"] = json!(back.is_some());
        line["tback"] = back.unwrap_or(json!("<error>"));
        e.text = Some(t);
    }
    if let Some((j, back)) = js {
        line["json"] = json!(j);
        line["jok"] = json!(back.is_some());
        line["jback"] = back.unwrap_or(json!("<error>"));
        e.json = Some(j);
    }
    if !extra.is_null() {
        line["valid"] = extra;
    }
    out.push(line.to_string());
    encs.push(e);
}

/// text round trip of a value with FromStr + Display
fn rt_text<T: ToString + FromStr>(x: &T, back: impl Fn(&T) -> Value) -> (String, Option<Value>) {
    let t = x.to_string();
    let b = guard(|| T::from_str(&t).ok().map(|y| back(&y))).flatten();
    (t, b)
}

fn rt_json<T: serde::Serialize + serde::de::DeserializeOwned>(x: &T, back: impl Fn(&T) -> Value) -> (String, Option<Value>) {
    let j = serde_json::to_string(x).unwrap_or_default();
    let b = guard(|| serde_json::from_str::<T>(&j).ok().map(|y| back(&y))).flatten();
    (j, b)
}

fn parse_text(ty: &str, t: &str) -> bool {
    match ty {
        "side" => Side::from_str(t).is_ok(),
        "tif" => TimeInForce::from_str(t).is_ok(),
        "peg" => PegReferenceType::from_str(t).is_ok(),
        "id" => OrderId::from_str(t).is_ok(),
        "order" => OrderType::<()>::from_str(t).is_ok(),
        "update" => OrderUpdate::from_str(t).is_ok(),
        "tx" => Transaction::from_str(t).is_ok(),
        "txlist" => TransactionList::from_str(t).is_ok(),
        "mres" => MatchResult::from_str(t).is_ok(),
        "summ" => PriceLevelSnapshot::from_str(t).is_ok(),
        "stats" => PriceLevelStatistics::from_str(t).is_ok(),
        "level" => PriceLevel::from_str(t).is_ok(),
        "queue" => OrderQueue::from_str(t).is_ok(),
        "status" => OrderStatus::from_str(t).is_ok(),
        _ => false,
    }
}

fn parse_json(ty: &str, t: &str) -> bool {
    match ty {
        "side" => serde_json::from_str::<Side>(t).is_ok(),
        "tif" => serde_json::from_str::<TimeInForce>(t).is_ok(),
        "peg" => serde_json::from_str::<PegReferenceType>(t).is_ok(),
        "id" => serde_json::from_str::<OrderId>(t).is_ok(),
        "order" => serde_json::from_str::<OrderType<()>>(t).is_ok(),
        "update" => serde_json::from_str::<OrderUpdate>(t).is_ok(),
        "tx" => serde_json::from_str::<Transaction>(t).is_ok(),
        "txlist" => serde_json::from_str::<TransactionList>(t).is_ok(),
        "mres" => serde_json::from_str::<MatchResult>(t).is_ok(),
        "stats" => serde_json::from_str::<PriceLevelStatistics>(t).is_ok(),
        "level" => serde_json::from_str::<PriceLevel>(t).is_ok(),
        "queue" => serde_json::from_str::<OrderQueue>(t).is_ok(),
        "snap" => serde_json::from_str::<PriceLevelSnapshot>(t).is_ok(),
        "pkg" => PriceLevel::from_snapshot_json(t).is_ok(),
        "pkgraw" => PriceLevelSnapshotPackage::from_json(t).is_ok(),
        "data" => serde_json::from_str::<PriceLevelData>(t).is_ok(),
        "status" => serde_json::from_str::<OrderStatus>(t).is_ok(),
        "uuidgen" => serde_json::from_str::<UuidGenerator>(t).is_ok(),
        _ => false,
    }
}

const TEXT_TYPES: [&str; 14] = ["side", "tif", "peg", "id", "order", "update", "tx", "txlist", "mres", "summ", "stats", "level", "queue", "status"];
const JSON_TYPES: [&str; 18] = ["side", "tif", "peg", "id", "order", "update", "tx", "txlist", "mres", "stats", "level", "queue", "snap", "pkg", "pkgraw", "data", "status", "uuidgen"];
const INS: [&str; 13] = ["é", "€", "😀", ";", "=", ":", "[", "]", ",", "-", "\0", "7", "\""];

struct Tally {
    n: u64,
    ok: u64,
    err: u64,
    panic: u64,
    first: Option<String>,
}

thread_local! { static SEEN: std::cell::RefCell<std::collections::HashSet<u64>> = Default::default(); }

fn feed(t: &mut Tally, ty: &str, json: bool, input: &str, watch: &Arc<std::sync::Mutex<Option<String>>>) {
    {
        use std::hash::{Hash, Hasher};
        let mut h = std::collections::hash_map::DefaultHasher::new();
        (ty, json, input).hash(&mut h);
        SEEN.with(|s| s.borrow_mut().insert(h.finish()));
    }
    *watch.lock().unwrap() = Some(format!("{ty}|{json}|{input}"));
    let r = guard(|| if json { parse_json(ty, input) } else { parse_text(ty, input) });
    *watch.lock().unwrap() = None;
    t.n += 1;
    match r {
        Some(true) => t.ok += 1,
        Some(false) => t.err += 1,
        None => {
            t.panic += 1;
            if t.first.is_none() {
                t.first = Some(input.to_string());
            }
        }
    }
}

/// every path to a value inside a JSON document
fn json_paths(v: &Value, cur: &mut Vec<String>, out: &mut Vec<Vec<String>>) {
    match v {
        Value::Object(m) => {
            for (k, x) in m {
                cur.push(k.clone());
                out.push(cur.clone());
                json_paths(x, cur, out);
                cur.pop();
            }
        }
        Value::Array(a) => {
            for (i, x) in a.iter().enumerate() {
                cur.push(format!("#{i}"));
                out.push(cur.clone());
                json_paths(x, cur, out);
                cur.pop();
            }
        }
        _ => {}
    }
}

fn json_at<'a>(v: &'a mut Value, path: &[String]) -> Option<&'a mut Value> {
    let mut cur = v;
    for k in path {
        cur = if let Some(i) = k.strip_prefix('#') { cur.get_mut(i.parse::<usize>().ok()?)? } else { cur.get_mut(k.as_str())? };
    }
    Some(cur)
}

fn json_delete(v: &mut Value, path: &[String]) {
    if let Some((last, parent)) = path.split_last() {
        if let Some(p) = json_at(v, parent) {
            if let Some(i) = last.strip_prefix('#') {
                if let (Some(a), Ok(i)) = (p.as_array_mut(), i.parse::<usize>()) {
                    if i < a.len() {
                        a.remove(i);
                    }
                }
            } else if let Some(m) = p.as_object_mut() {
                m.remove(last.as_str());
            }
        }
    }
}

/// structural faults of a JSON encoding: delete a member, replace a value by an extreme / foreign one,
/// and pairs (delete one member + make one number extreme)
fn mutate_json(src: &str, max: usize, mut f: impl FnMut(&str, String)) {
    let Ok(doc) = serde_json::from_str::<Value>(src) else { return };
    let mut paths = vec![];
    json_paths(&doc, &mut vec![], &mut paths);
    let extremes: Vec<Value> = vec![json!(u64::MAX), json!(1u64 << 60), json!(-1), json!(1.5), json!(1e308), json!(null), json!(""), json!([]), json!({}), json!(true),
                                    json!("18446744073709551616")];
    let mut n = 0;
    for p in &paths {
        let mut d = doc.clone();
        json_delete(&mut d, p);
        f("jdel", d.to_string());
        for e in &extremes {
            let mut d = doc.clone();
            if let Some(x) = json_at(&mut d, p) {
                *x = e.clone();
            }
            f("jset", d.to_string());
        }
        n += 1;
        if n >= max {
            break;
        }
    }
    // pairs: one deletion + one number made huge
    let nums: Vec<&Vec<String>> = paths.iter().filter(|p| { let mut d = doc.clone(); json_at(&mut d, p).map(|x| x.is_number()).unwrap_or(false) }).collect();
    let mut k = 0;
    for del in &paths {
        for num in &nums {
            if k >= max * 8 {
                return;
            }
            if num.starts_with(del) {
                continue;
            }
            for e in [json!(u64::MAX), json!(1u64 << 60)] {
                let mut d = doc.clone();
                if let Some(x) = json_at(&mut d, num) {
                    *x = e;
                }
                json_delete(&mut d, del);
                f("jpair", d.to_string());
                k += 1;
            }
        }
    }
}

fn mutate(src: &str, stride: usize, mut f: impl FnMut(&str, String)) {
    let idx: Vec<(usize, char)> = src.char_indices().collect();
    for (k, &(p, c)) in idx.iter().enumerate() {
        if k % stride != 0 {
            continue;
        }
        let end = p + c.len_utf8();
        f("del", format!("{}{}", &src[..p], &src[end..]));
        f("dup", format!("{}{}{}", &src[..end], c, &src[end..]));
        for i in INS {
            f("ins", format!("{}{}{}", &src[..p], i, &src[p..]));
            f("sub", format!("{}{}{}", &src[..p], i, &src[end..]));
        }
        f("trunc", src[..p].to_string());
    }
    // LONG insertions: a run of k characters followed by a multi-byte one, placed after every separator of the
    // encoding (field values, type names, list elements).  Code that cuts, pads or echoes a rejected value at a
    // fixed byte offset (16, 32, 64, 128, 256 ...) meets a character boundary problem only with such inputs.
    let seps: Vec<usize> = idx.iter().filter(|(_, c)| matches!(c, '=' | ':' | ';' | ',' | '[' | '"' | '|')).map(|(p, c)| p + c.len_utf8()).collect();
    for (n, &at) in std::iter::once(&0usize).chain(seps.iter()).enumerate() {
        if n % stride.max(1) != 0 && n > 8 {
            continue;
        }
        for base in [16usize, 32, 64, 128, 256] {
            for d in 0..4 {
                let k = base - d;
                for mb in ["\u{e9}", "\u{20ac}", "\u{1f600}"] {
                    let fill = if n % 2 == 0 { "9" } else { "A" };
                    f("long", format!("{}{}{}{}", &src[..at], fill.repeat(k), mb, &src[at..]));
                }
            }
        }
    }
    // MANY KEYS: 1..16 further key=value pairs (unknown keys, and the encoding's own pairs repeated) appended to
    // every field section of a text encoding; a fixed-capacity field table overflows only with such inputs
    if let Some(colon) = src.find(':') {
        let body = &src[colon + 1..];
        let own: Vec<&str> = body.split(';').filter(|p| p.matches('=').count() == 1 && !p.contains('[')).collect();
        for extra in 1..=16usize {
            let unk: String = (0..extra).map(|k| format!(";zz{k}={k}")).collect();
            f("manykeys", format!("{src}{unk}"));
            if !own.is_empty() {
                let rep: String = (0..extra).map(|k| format!(";{}", own[k % own.len()])).collect();
                f("manykeys", format!("{src}{rep}"));
                // inside the first field section (for levels / queues: inside the first order of the list)
                if let Some(first_semi) = src.find(';') {
                    f("manykeys", format!("{}{}{}", &src[..first_semi], rep, &src[first_semi..]));
                }
            }
        }
    }
    if src.starts_with('{') && src.len() > 2 {
        // JSON objects: further members, unknown and repeated, at the front of the outer object
        for extra in [1usize, 4, 11, 16] {
            let unk: String = (0..extra).map(|k| format!("\"zz{k}\":{k},")).collect();
            f("manykeys", format!("{{{}{}", unk, &src[1..]));
        }
    }
    // very long plain runs
    for &at in seps.iter().take(6) {
        f("long", format!("{}{}{}", &src[..at], "7".repeat(5000), &src[at..]));
    }
}

pub fn run(sc: &Value) -> Vec<String> {
    let mut out = vec![];
    let mut encs: Vec<Enc> = vec![];
    let mut rng = Rng(sc["seed"].as_u64().unwrap_or(1));
    let n = sc["n"].as_u64().unwrap_or(50) as usize;
    // ---- C16 / C17: round trips -------------------------------------------------------------
    for x in [Side::Buy, Side::Sell] {
        cline(&mut out, &mut encs, "side", side_v(x), Some(rt_text(&x, |y| side_v(*y))), Some(rt_json(&x, |y| side_v(*y))), Value::Null);
    }
    for x in [PegReferenceType::BestBid, PegReferenceType::BestAsk, PegReferenceType::MidPrice, PegReferenceType::LastTrade] {
        cline(&mut out, &mut encs, "peg", peg_v(&x), Some(rt_text(&x, peg_v)), Some(rt_json(&x, peg_v)), Value::Null);
    }
    for x in [OrderStatus::New, OrderStatus::Active, OrderStatus::PartiallyFilled, OrderStatus::Filled, OrderStatus::Canceled, OrderStatus::Rejected, OrderStatus::Expired] {
        let sv = |y: &OrderStatus| json!(match y {
            OrderStatus::New => "NEW",
            OrderStatus::Active => "ACTIVE",
            OrderStatus::PartiallyFilled => "PARTIALLYFILLED",
            OrderStatus::Filled => "FILLED",
            OrderStatus::Canceled => "CANCELED",
            OrderStatus::Rejected => "REJECTED",
            OrderStatus::Expired => "EXPIRED",
        });
        cline(&mut out, &mut encs, "status", sv(&x), Some(rt_text(&x, sv)), None, Value::Null);
    }
    let mut tifs = vec![TimeInForce::Gtc, TimeInForce::Ioc, TimeInForce::Fok, TimeInForce::Day];
    tifs.extend(BIG.iter().map(|b| TimeInForce::Gtd(*b)));
    for x in &tifs {
        cline(&mut out, &mut encs, "tif", tif_v(x), Some(rt_text(x, tif_v)), Some(rt_json(x, tif_v)), Value::Null);
    }
    for _ in 0..n.max(12) {
        let x = ids(&mut rng);
        cline(&mut out, &mut encs, "id", oid_s(&x), Some(rt_text(&x, oid_s)), Some(rt_json(&x, oid_s)), Value::Null);
    }
    for i in 0..(7 * n.max(4)) {
        let x = order(&mut rng, i);
        cline(&mut out, &mut encs, "order", order_v(&x), Some(rt_text(&x, order_v)), Some(rt_json(&x, order_v)), Value::Null);
    }
    // boundary sweep: every order type with every numeric field at every boundary value (always, whatever n)
    for b in BIG.iter() {
        for kind in 0..8 {
            let mut x = order(&mut rng, kind.min(6));
            set_all(&mut x, *b, kind == 7);
            cline(&mut out, &mut encs, "order", order_v(&x), Some(rt_text(&x, order_v)), Some(rt_json(&x, order_v)), Value::Null);
        }
    }
    // the same sweep for the other numeric records: every field at every boundary value
    for b in BIG.iter() {
        let id = ids(&mut rng);
        for x in [OrderUpdate::UpdatePrice { order_id: id, new_price: *b }, OrderUpdate::UpdateQuantity { order_id: id, new_quantity: *b },
                  OrderUpdate::UpdatePriceAndQuantity { order_id: id, new_price: *b, new_quantity: *b },
                  OrderUpdate::Replace { order_id: id, price: *b, quantity: *b, side: side(&mut rng) }] {
            cline(&mut out, &mut encs, "update", update_v(&x), Some(rt_text(&x, update_v)), Some(rt_json(&x, update_v)), Value::Null);
        }
        let mut t = transaction(&mut rng);
        t.price = *b;
        t.quantity = *b;
        t.timestamp = *b;
        cline(&mut out, &mut encs, "tx", tx_v(&t), Some(rt_text(&t, tx_v)), Some(rt_json(&t, tx_v)), Value::Null);
        let mut m = MatchResult::new(ids(&mut rng), *b);
        m.remaining_quantity = *b;
        m.transactions = TransactionList::from_vec(vec![t]);
        cline(&mut out, &mut encs, "mres", mres_v(&m), Some(rt_text(&m, mres_v)), Some(rt_json(&m, mres_v)), Value::Null);
        // statistics: all eight figures at b, and each figure alone at b with the others at 7
        for which in 0..9 {
            let st = PriceLevelStatistics::new();
            let v = |k: usize| if which == 8 || which == k { *b } else { 7 };
            st.orders_added.store(v(0) as usize, std::sync::atomic::Ordering::Relaxed);
            st.orders_removed.store(v(1) as usize, std::sync::atomic::Ordering::Relaxed);
            st.orders_executed.store(v(2) as usize, std::sync::atomic::Ordering::Relaxed);
            st.quantity_executed.store(v(3), std::sync::atomic::Ordering::Relaxed);
            st.value_executed.store(v(4), std::sync::atomic::Ordering::Relaxed);
            st.last_execution_time.store(v(5), std::sync::atomic::Ordering::Relaxed);
            st.first_arrival_time.store(v(6), std::sync::atomic::Ordering::Relaxed);
            st.sum_waiting_time.store(v(7), std::sync::atomic::Ordering::Relaxed);
            cline(&mut out, &mut encs, "stats", stats_v(&st), Some(rt_text(&st, stats_v)), Some(rt_json(&st, stats_v)), Value::Null);
        }
        let sm = PriceLevelSnapshot { price: *b, visible_quantity: *b, hidden_quantity: *b, order_count: *b as usize, orders: vec![] };
        cline(&mut out, &mut encs, "summ", summ_v(&sm), Some(rt_text(&sm, summ_v)), None, Value::Null);
    }
    for i in 0..(5 * n.max(4)) {
        let id = ids(&mut rng);
        let x = match i % 5 {
            0 => OrderUpdate::UpdatePrice { order_id: id, new_price: num(&mut rng) },
            1 => OrderUpdate::UpdateQuantity { order_id: id, new_quantity: num(&mut rng) },
            2 => OrderUpdate::UpdatePriceAndQuantity { order_id: id, new_price: num(&mut rng), new_quantity: num(&mut rng) },
            3 => OrderUpdate::Cancel { order_id: id },
            _ => OrderUpdate::Replace { order_id: id, price: num(&mut rng), quantity: num(&mut rng), side: side(&mut rng) },
        };
        cline(&mut out, &mut encs, "update", update_v(&x), Some(rt_text(&x, update_v)), Some(rt_json(&x, update_v)), Value::Null);
    }
    for _ in 0..n {
        let x = transaction(&mut rng);
        cline(&mut out, &mut encs, "tx", tx_v(&x), Some(rt_text(&x, tx_v)), Some(rt_json(&x, tx_v)), Value::Null);
    }
    for i in 0..n {
        let k = [0, 1, 2, 5][i % 4];
        let txs: Vec<Transaction> = (0..k).map(|_| transaction(&mut rng)).collect();
        // built through the public new() / add() on odd rounds, through from_vec on even ones
        let l = if i % 2 == 1 {
            let mut l = TransactionList::new();
            for t in &txs {
                l.add(t.clone());
            }
            l
        } else {
            TransactionList::from_vec(txs.clone())
        };
        let lv = |y: &TransactionList| Value::Array(y.as_vec().iter().map(tx_v).collect());
        cline(&mut out, &mut encs, "txlist", lv(&l), Some(rt_text(&l, lv)), None, Value::Null);
        let mut m = MatchResult::new(ids(&mut rng), num(&mut rng));
        m.transactions = l;
        m.remaining_quantity = num(&mut rng);
        m.is_complete = rng.chance(1, 2);
        m.filled_order_ids = (0..[0, 1, 3][i % 3]).map(|_| ids(&mut rng)).collect();
        cline(&mut out, &mut encs, "mres", mres_v(&m), Some(rt_text(&m, mres_v)), Some(rt_json(&m, mres_v)), Value::Null);
    }
    for i in 0..n {
        let st = PriceLevelStatistics::new();
        let vals: Vec<u64> = (0..8).map(|_| num(&mut rng)).collect();
        st.orders_added.store(vals[0] as usize, std::sync::atomic::Ordering::Relaxed);
        st.orders_removed.store(vals[1] as usize, std::sync::atomic::Ordering::Relaxed);
        st.orders_executed.store(vals[2] as usize, std::sync::atomic::Ordering::Relaxed);
        st.quantity_executed.store(vals[3], std::sync::atomic::Ordering::Relaxed);
        st.value_executed.store(vals[4], std::sync::atomic::Ordering::Relaxed);
        st.last_execution_time.store(vals[5], std::sync::atomic::Ordering::Relaxed);
        st.first_arrival_time.store(vals[6], std::sync::atomic::Ordering::Relaxed);
        st.sum_waiting_time.store(vals[7], std::sync::atomic::Ordering::Relaxed);
        cline(&mut out, &mut encs, "stats", stats_v(&st), Some(rt_text(&st, stats_v)), Some(rt_json(&st, stats_v)), Value::Null);
        // levels, snapshots, packages
        let l = level(&mut rng, [0, 1, 2, 4, 7][i % 5]);
        cline(&mut out, &mut encs, "level", level_v(&l), Some(rt_text(&l, level_v)), Some(rt_json(&l, level_v)), Value::Null);
        let sn = l.snapshot();
        cline(&mut out, &mut encs, "summ", summ_v(&sn), Some(rt_text(&sn, summ_v)), None, Value::Null);
        cline(&mut out, &mut encs, "snap", snap_v(&sn), None, Some(rt_json(&sn, snap_v)), Value::Null);
        if let Ok(p) = l.snapshot_package() {
            let pv = |y: &PriceLevelSnapshotPackage| json!({"version": s(y.version), "snapshot": snap_v(&y.snapshot), "checksum": y.checksum});
            let j = p.to_json().unwrap_or_default();
            let back = guard(|| PriceLevelSnapshotPackage::from_json(&j).ok()).flatten();
            let valid = back.as_ref().map(|b| b.validate().is_ok()).unwrap_or(false);
            cline(&mut out, &mut encs, "pkg", pv(&p), None, Some((j, back.as_ref().map(pv))), json!(valid));
        }
        // hand-assembled snapshot (public fields): orders in arbitrary, not timestamp, order
        {
            let mut os = l.iter_orders();
            for k in (1..os.len()).rev() {
                let j = rng.below(k + 1);
                os.swap(k, j);
            }
            let hs = PriceLevelSnapshot { price: sn.price, visible_quantity: num(&mut rng), hidden_quantity: num(&mut rng), order_count: rng.below(9), orders: os };
            cline(&mut out, &mut encs, "snapseq", snap_v(&hs), None, Some(rt_json(&hs, snap_v)), Value::Null);
            if let Ok(p) = PriceLevelSnapshotPackage::new(hs.clone()) {
                let pv = |y: &PriceLevelSnapshotPackage| json!({"version": s(y.version), "snapshot": snap_v(&y.snapshot), "checksum": y.checksum});
                let j = p.to_json().unwrap_or_default();
                let back = guard(|| PriceLevelSnapshotPackage::from_json(&j).ok()).flatten();
                let valid = back.as_ref().map(|b| b.validate().is_ok()).unwrap_or(false);
                cline(&mut out, &mut encs, "pkgseq", pv(&p), None, Some((j, back.as_ref().map(pv))), json!(valid));
            }
        }
        let q = OrderQueue::from_vec(l.iter_orders());
        let qv = |y: &OrderQueue| Value::Array(y.to_vec().iter().map(|o| order_v(o)).collect());
        let t = q.to_string();
        // the text of a queue lists in timestamp order with ties in map order: compare as a set
        let back = guard(|| OrderQueue::from_str(&t).ok().map(|y| qv(&y))).flatten();
        cline(&mut out, &mut encs, "queue", qv(&q), Some((t, back)), None, Value::Null);
    }
    // a level whose displayed quantities sum past 2^64: its aggregates have wrapped, and a round trip must give back
    // exactly those figures (a rebuild that sums differently - saturating instead of wrapping - does not)
    {
        let l = PriceLevel::new(7);
        l.add_order(OrderType::Standard { id: OrderId::from_u64(1), price: 7, quantity: M, side: Side::Buy, timestamp: 1, time_in_force: TimeInForce::Gtc, extra_fields: () });
        l.add_order(OrderType::IcebergOrder { id: OrderId::from_u64(2), price: 7, visible_quantity: 2, hidden_quantity: M, side: Side::Sell, timestamp: 2, time_in_force: TimeInForce::Gtc, extra_fields: () });
        l.add_order(OrderType::IcebergOrder { id: OrderId::from_u64(3), price: 7, visible_quantity: 0, hidden_quantity: 5, side: Side::Sell, timestamp: 3, time_in_force: TimeInForce::Day, extra_fields: () });
        cline(&mut out, &mut encs, "level", level_v(&l), Some(rt_text(&l, level_v)), Some(rt_json(&l, level_v)), Value::Null);
    }
    // ---- C18: every parser on character-level faults of every encoding ------------------------
    let stride = sc["stride"].as_u64().unwrap_or(1) as usize;
    let per_type = sc["fault_sources"].as_u64().unwrap_or(6) as usize;
    let watch: Arc<std::sync::Mutex<Option<String>>> = Arc::new(std::sync::Mutex::new(None));
    {
        // watchdog: a parser that does not return within 10 s is reported and the process ends
        let w = watch.clone();
        let path = sc["hang_file"].as_str().unwrap_or("/dev/null").to_string();
        std::thread::spawn(move || {
            let mut last: Option<String> = None;
            let mut since = std::time::Instant::now();
            loop {
                std::thread::sleep(std::time::Duration::from_millis(500));
                let cur = w.lock().unwrap().clone();
                if cur.is_some() && cur == last {
                    if since.elapsed().as_secs() >= 10 {
                        let _ = std::fs::write(&path, cur.unwrap_or_default());
                        std::process::exit(3);
                    }
                } else {
                    last = cur;
                    since = std::time::Instant::now();
                }
            }
        });
    }
    let specials: Vec<String> = vec![
        String::new(), " ".into(), ":".into(), "=".into(), ";;;".into(), "[".into(), "]".into(), "[]".into(), "{}".into(), "null".into(), "\"\"".into(),
        "MatchResult:order_id=é".into(), "MatchResult:".into(), "Transactions:[".into(), "Transactions:]".into(), "Transactions:[[[[".into(),
        "PriceLevel:price=1;orders=[".into(), "PriceLevel:orders=[]".into(), "PriceLevel:price=1;orders=[Standard:id=1]".into(),
        "OrderQueue:orders=[".into(), "OrderQueue:orders=[]".into(), "OrderQueue:orders=[,]".into(),
        format!("Standard:id=1;price={}", "9".repeat(40)), "GTD-".into(), "GTD--1".into(), format!("GTD-{}", "9".repeat(40)),
        "[".repeat(10_000), format!("{}{}", "[".repeat(5_000), "]".repeat(5_000)), "{\"a\":".repeat(2_000),
        "Standard:id=00000000-0000-0001-0000-000000000000;price=1;price=2;quantity=1;side=BUY;timestamp=1;time_in_force=GTC".into(),
        "Standard:id=00000000-0000-0001-0000-000000000000;price=1;quantity=1;side=BUY;timestamp=1;time_in_force=GTC;bogus=1".into(),
        "MatchResult:order_id=00000000-0000-0001-0000-000000000000;remaining_quantity=0;is_complete=true;transactions=Transactions:[];filled_order_ids=[é]".into(),
        "MatchResult:order_id=x;remaining_quantity=0;is_complete=true;transactions=Transactions:[é];filled_order_ids=[]".into(),
        "\u{feff}Standard:id=1".into(), "Ｓtandard:id=1".into(),
    ];
    let mut res: std::collections::BTreeMap<(String, bool, String), Tally> = Default::default();
    // specials go to every entry point
    for sp in &specials {
        for ty in TEXT_TYPES {
            let t = res.entry((ty.to_string(), false, "special".to_string())).or_insert(Tally { n: 0, ok: 0, err: 0, panic: 0, first: None });
            feed(t, ty, false, sp, &watch);
        }
        for ty in JSON_TYPES {
            let t = res.entry((ty.to_string(), true, "special".to_string())).or_insert(Tally { n: 0, ok: 0, err: 0, panic: 0, first: None });
            feed(t, ty, true, sp, &watch);
        }
    }
    // mutations of valid encodings: to the parser of their own type, and (texts) cross-fed to all
    let mut used: std::collections::HashMap<(&'static str, bool), usize> = Default::default();
    let mut work: Vec<(&'static str, bool, String)> = vec![];
    for e in &encs {
        if let Some(t) = &e.text {
            let c = used.entry((e.ty, false)).or_insert(0);
            if *c < per_type && TEXT_TYPES.contains(&e.ty) {
                *c += 1;
                work.push((e.ty, false, t.clone()));
            }
        }
        if let Some(j) = &e.json {
            let c = used.entry((e.ty, true)).or_insert(0);
            if *c < per_type && JSON_TYPES.contains(&e.ty) {
                *c += 1;
                work.push((e.ty, true, j.clone()));
            }
        }
    }
    for (ty, js, src) in &work {
        // long encodings are sampled with a larger stride so that the run stays bounded
        let st = stride * (1 + src.len() / 600);
        mutate(src, st, |kind, input| {
            let t = res.entry((ty.to_string(), *js, kind.to_string())).or_insert(Tally { n: 0, ok: 0, err: 0, panic: 0, first: None });
            feed(t, ty, *js, &input, &watch);
        });
        if *js {
            mutate_json(src, 60, |kind, input| {
                let t = res.entry((ty.to_string(), true, kind.to_string())).or_insert(Tally { n: 0, ok: 0, err: 0, panic: 0, first: None });
                feed(t, ty, true, &input, &watch);
            });
        }
        // cross-feeding: the unmodified text into every other parser of the same family
        let all: &[&str] = if *js { &JSON_TYPES } else { &TEXT_TYPES };
        for other in all {
            let t = res.entry((other.to_string(), *js, "cross".to_string())).or_insert(Tally { n: 0, ok: 0, err: 0, panic: 0, first: None });
            feed(t, other, *js, src, &watch);
        }
    }
    out.push(json!({"k": "pstat", "distinct": SEEN.with(|s| s.borrow().len())}).to_string());
    for ((ty, js, kind), t) in res {
        out.push(json!({"k": "p", "ty": ty, "entry": if js { "json" } else { "text" }, "mut": kind, "n": t.n, "ok": t.ok, "err": t.err, "panic": t.panic, "first": t.first.unwrap_or_default()}).to_string());
    }
    out
}

