----------------------------- MODULE QueueConcMC -----------------------------
(* Concurrent push / pop / remove / find on the bare queue, every interleaving, followed by a
   drain (pop until empty) by an extra thread (C08 second half). *)
EXTENDS Queue, Json
CONSTANTS Scenarios, EmitReplays
VARIABLES sc, sh, th, k, g, phase, hist
vars == <<sc, sh, th, k, g, phase, hist>>
View == <<sc, sh, th, k, g, phase>>

NT(s) == Len(Scenarios[s].progs)
Dr(s) == NT(s) + 1
Prog(s, t) == IF t = Dr(s) THEN <<>> ELSE Scenarios[s].progs[t]

Start(s, t, me, kk, gg) ==
  IF me.pc # "idle" \/ kk > Len(Prog(s, t)) THEN [me |-> me, k |-> kk, g |-> gg]
  ELSE [me |-> QBegin(me, Prog(s, t)[kk]), k |-> kk + 1, g |-> QConcCall(gg, t, Prog(s, t)[kk])]

RECURSIVE StartAll(_, _, _, _, _)
StartAll(s, ts, thf, kf, gg) ==
  IF ts = {} THEN [th |-> thf, k |-> kf, g |-> gg]
  ELSE LET t == CHOOSE x \in ts : TRUE
           n == Start(s, t, thf[t], kf[t], gg)
       IN StartAll(s, ts \ {t}, [thf EXCEPT ![t] = n.me], [kf EXCEPT ![t] = n.k], n.g)

Init ==
  /\ sc \in DOMAIN Scenarios
  /\ sh = QFrom(Scenarios[sc].init)
  /\ LET a == StartAll(sc, 1..NT(sc), [t \in 1..Dr(sc) |-> QIdle], [t \in 1..Dr(sc) |-> 1], QConcInit(1..Dr(sc), sh))
     IN th = a.th /\ k = a.k /\ g = a.g
  /\ phase = "run" /\ hist = <<>>

StepT(t) ==
  /\ th[t].pc # "idle"
  /\ LET n  == QStep1(sh, th[t])
         g1 == QConcOp(g, t, n.ev)
         g2 == IF n.me.pc = "idle" THEN QConcRet(g1, t, n.me.ret) ELSE g1
         a  == IF phase = "run" THEN Start(sc, t, n.me, k[t], g2) ELSE [me |-> n.me, k |-> k[t], g |-> g2]
     IN sh' = n.sh /\ th' = [th EXCEPT ![t] = a.me] /\ k' = [k EXCEPT ![t] = a.k] /\ g' = a.g
  /\ hist' = Append(hist, t) /\ UNCHANGED sc

AllIdle == \A t \in DOMAIN th : th[t].pc = "idle"
Run == phase = "run" /\ \E t \in 1..NT(sc) : StepT(t) /\ UNCHANGED phase
\* the drainer pops until it gets none
DrainStep ==
  /\ phase \in {"run", "drain"} /\ (phase = "run" => AllIdle)
  /\ LET d == Dr(sc) IN
     IF th[d].pc = "idle"
     THEN IF phase = "drain" /\ th[d].ret.t = "none"
          THEN phase' = "done" /\ UNCHANGED <<sc, sh, th, k, g, hist>>
          ELSE /\ th' = [th EXCEPT ![d] = QBegin(QIdle, [op |-> "pop"])]
               /\ g' = QConcCall(g, d, [op |-> "pop"]) /\ phase' = "drain" /\ UNCHANGED <<sc, sh, k, hist>>
     ELSE StepT(d) /\ phase' = "drain"
Next == Run \/ DrainStep
Spec == Init /\ [][Next]_vars

Inv_cover   == QMon_cover(sh, g)
Inv_drained == phase = "done" => QMon_drained(sh, g)
Inv_nobad   == g.bad = {}
Inv_Emit == (EmitReplays /\ phase = "done") => PrintT(<<"REPLAY", ToJson([sc |-> sc, sched |-> hist])>>)
=============================================================================
