------------------------------ MODULE TraceMres ------------------------------
(* Recorded incremental constructions of real MatchResult values, checked step by step
   against MatchResultMod (C02, last sentence). One line per construction. *)
EXTENDS MatchResultMod, IOUtils, FiniteSetsExt
Rec == ndJsonDeserialize(IOEnv.TRACE)

RECURSIVE Build(_, _, _)
Build(mm, steps, k) ==
  IF k > Len(steps) THEN mm
  ELSE LET s == steps[k] IN
       Build(IF s.op = "tx" THEN AddTransaction(mm, [qty |-> s.qty, px |-> s.px, maker |-> 1]) ELSE AddFilled(mm, 1), steps, k + 1)

\* every prefix of the construction: the real value after step k is the model's
StepOk(e, k) ==
  LET mm == Build(New(90, e.init), SubSeq(e.steps, 1, k), 1)
      o  == e.obs[k] IN
  /\ o.rem = mm.rem /\ o.complete = mm.complete /\ o.exe = Executed(mm) /\ o.val = ExecutedValue(mm)
  /\ o.ntx = Len(mm.txs) /\ o.nfilled = Len(mm.filled)
  /\ Accounted(mm)
LineOk(e) == /\ e.new.rem = e.init /\ ~e.new.complete /\ e.new.ntx = 0
             /\ \A k \in DOMAIN e.steps : StepOk(e, k)
Bad == {i \in DOMAIN Rec : ~LineOk(Rec[i])}
Summary == [lines |-> Len(Rec), bad |-> Cardinality(Bad), firstbad |-> IF Bad = {} THEN 0 ELSE Min(Bad),
            steps |-> FoldFunctionOnSet(LAMBDA a, b : a + b, 0, [i \in DOMAIN Rec |-> Len(Rec[i].steps)], DOMAIN Rec)]
TSpec == m = New(90, 0) /\ ops = <<>> /\ [][UNCHANGED vars]_vars
EmitSummary == PrintT(<<"SUMMARY", ToJson(Summary)>>)
=============================================================================
