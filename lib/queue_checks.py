"""C19 (exported queue, single-threaded) and the queue half of C08 (concurrent push/pop/remove/find)."""
import os, json
from common import *
import scen

KF_WHAT = {"KF-C19-1": "a re-pushed id comes out at the position of its older, stale ticket"}


def rand_queue_calls(rng, n, nids, ties=False):
    calls = []
    ts = 0
    for _ in range(n):
        x = rng.below(100)
        i = rng.range(1, nids)
        if x < 35:
            ts += 1
            calls.append({"op": "push", "o": scen.rand_order(rng, i, rng.range(1, 2) if ties else (rng.range(1, 5) if rng.chance(1, 3) else ts))})
        elif x < 55:
            calls.append({"op": "pop"})
        elif x < 67:
            calls.append({"op": "remove", "id": i})
        elif x < 77:
            calls.append({"op": "find", "id": i})
        elif x < 85:
            calls.append({"op": "len"})
        elif x < 92:
            calls.append({"op": "is_empty"})
        else:
            calls.append({"op": "to_vec"})
    return calls


def qscen(calls_per_thread, sched, init=(), drain=False):
    return {"init": list(init), "threads": calls_per_thread, "sched": sched, "drain": drain}


def judge(res, s, mons, hs, what, kfset):
    for f in s["fails"]:
        if f["mon"] in mons or f["mon"] == "TOOL":
            if f["mon"] == "TOOL":
                raise ToolError("trace self-consistency failed at line %d" % f["line"])
            res.violation("%s: monitor %s failed at trace line %d (scenario %d, run %d)" % (what, f["mon"], f["line"], f["sc"], f["run"]),
                          {"kind": what, "driver": "queue", "scenario": hs[f["sc"]], "line": f["line"], "run": f["run"]})
    for k in s["kf"]:
        if k in kfset:
            res.kf_seen[k] = KF_WHAT.get(k, k)


def check_c19(prop, tier):
    res = Result(prop, tier, "model_checking")
    work = Work(prop)
    rng = Rng(seed() * 31337 + 5)
    try:
        res.add(build_s=round(build_harness(), 1))
        maxlen = "6" if tier == "quick" else "8"
        cfg = write_cfg(work, "mc", "QueueSeq", subst={"MaxLen": maxlen, "EmitEdges": "TRUE"})
        r = require_ok(tlc("QueueSeqMC", cfg, work, workers=8, timeout=3000), "model check of C19")
        res.add(states=r["distinct"], transitions=r["generated"], depth=r["depth"], checker_cmd="tlc QueueSeqMC MaxLen=%s INVARIANT Inv_C19 Inv_Struct" % maxlen)
        cfgw = write_cfg(work, "mcw", "QueueSeq", subst={"MaxLen": "5"}, drop=["Inv_C19"], add=["INVARIANT Inv_C19raw"])
        rw = tlc("QueueSeqMC", cfgw, work, workers=8, timeout=3000)
        if "Inv_C19raw" not in rw["violated"]:
            raise ToolError("the queue model no longer contains the stale-ticket deviation: the KF classification would be vacuous")
        replays = r["prints"].get("EDGE", [])     # one call sequence per generated transition (edge cover)
        res.add(model_transitions_emitted=len(replays))
        cap = 1500 if tier == "quick" else 40000
        if len(replays) > cap:
            step = len(replays) // cap + 1
            replays = replays[rng.below(step)::step]
        hs = [qscen([rp["calls"]], {"mode": "fixed", "seq": []}) for rp in replays]
        h = run_harness("queue", hs, work, "rp")
        s = tv(h["trace"], "TraceQueue", "TraceQueue", work, timeout=3000)
        ends = trace_lines_of_kind(h["trace"], "end")
        mism = sum(1 for rp, e in zip(replays, ends) if e["st"] != rp["final"])
        res.add(replayed_model_behaviours=len(replays), replay_final_mismatch=mism, replay_drifts=len(s["drifts"]),
                traces_validated_against_impl=s["execs"], calls_judged=s["seqjudged"], events_validated=s["lines"])
        judge(res, s, {"C19", "PANIC"}, hs, "replay of model sequence", {"KF-C19-1"})
        for rp in replays[:2]:
            res.sample({"calls": rp["calls"], "model_final": rp["final"]})
        # random sequences over all kinds + construction paths
        n = 200 if tier == "quick" else 4000
        hs2 = [qscen([rand_queue_calls(rng, rng.range(8, 30), rng.choice([2, 3, 5]))], {"mode": "fixed", "seq": []}) for _ in range(n)]
        for k in range(0, n, 3):
            # timestamps in microseconds / at the 64-bit limit (the listing sorts by them), ids in the ULID format
            hs2[k]["tsoff"] = str([1800000000000000, (1 << 64) - 100000][(k // 3) % 2])
            hs2[k]["ulid"] = (k // 3) % 4 >= 2
        for k in range(1, n, 3):
            # ids 4, 5, 6 = the bytes of ids 1, 2, 3 in the other id format; many equal timestamps
            hs2[k] = qscen([rand_queue_calls(rng, rng.range(8, 30), 6, ties=True)], {"mode": "fixed", "seq": []})
            hs2[k]["twins"] = True
        nb = 0
        for via in ("from_vec", "from", "text", "json"):
            for _ in range(25 if tier == "quick" else 400):
                k = rng.choice([0, 1, 2, 3, 5, 8])
                ids = list(range(1, 13))
                inp = []
                for j in range(k):
                    i = ids.pop(rng.below(len(ids)))
                    inp.append(scen.rand_order(rng, i, rng.range(1, 6)))
                b = {"via": via, "input": inp}
                if nb % 3 == 1:
                    b["tsoff"] = str([1800000000000000, (1 << 64) - 100000][(nb // 3) % 2])
                    b["ulid"] = (nb // 3) % 4 >= 2
                elif nb % 3 == 2:
                    b["twins"] = True
                hs2.append(b)
                nb += 1
        h2 = run_harness("queue", hs2, work, "tv")
        s2 = tv(h2["trace"], "TraceQueue", "TraceQueue", work, timeout=3000)
        res.add(traces_validated_against_impl=s2["execs"], calls_judged=s2["seqjudged"], events_validated=s2["lines"],
                constructions_checked=s2["builds"], tv_drifts=len(s2["drifts"]))
        judge(res, s2, {"C19", "PANIC"}, hs2, "recorded sequence", {"KF-C19-1"})
        res.sample({"random_calls": hs2[0]["threads"][0][:10]})
        drift = len(s["drifts"]) + len(s2["drifts"]) + mism
        if drift and not res.violations:
            # ESCALATION: the model does not explain some step. Continue the drifting sequences from the
            # point of divergence with many random continuations over a small id set, monitors on.
            esc = []
            for src, summ in ((hs, s), (hs2, s2)):
                lines = None
                for d in summ["drifts"][:40]:
                    sc = src[d["sc"]]
                    if "threads" not in sc:
                        continue
                    calls = sc["threads"][0]
                    for cut in (len(calls), max(1, len(calls) // 2)):
                        for _ in range(12):
                            esc.append(qscen([calls[:cut] + rand_queue_calls(rng, rng.range(4, 10), 3)], {"mode": "fixed", "seq": []}))
            if esc:
                h3 = run_harness("queue", esc, work, "esc")
                s3 = tv(h3["trace"], "TraceQueue", "TraceQueue", work, timeout=3000)
                res.add(escalation_sequences=len(esc), traces_validated_against_impl=s3["execs"], calls_judged=s3["seqjudged"])
                judge(res, s3, {"C19", "PANIC"}, esc, "escalation after drift", {"KF-C19-1"})
        if drift and not res.violations:
            print("DRIFT property=%s: %d steps not explained by the queue model (monitors hold)" % (prop, drift))
            res.level = "exploration"
            res.cov.update(evaluations=s["calls"] + s2["calls"], distinct_nontrivial=s["execs"] + s2["execs"],
                           rule="recorded queue call sequences judged by the C19 per-call predicate; model drift, exhaustive result does not transfer")
        res.assumptions += ["ids pushed once or re-pushed after removal (driver skips a push of a queued id)", "bounded model: ids <= 3, sequences <= %s calls" % maxlen]
        return res.finish()
    finally:
        work.cleanup()


def conc_queue_scenarios(tier):
    o = lambda i: scen.S(i, 1)
    base = [o(1), o(2)]
    progs = [
        [[{"op": "pop"}], [{"op": "pop"}]],
        [[{"op": "pop"}], [{"op": "remove", "id": 1}]],
        [[{"op": "pop"}], [{"op": "remove", "id": 2}]],
        [[{"op": "push", "o": o(3)}], [{"op": "pop"}]],
        [[{"op": "push", "o": o(3)}], [{"op": "pop"}, {"op": "pop"}]],
        [[{"op": "push", "o": o(3)}, {"op": "pop"}], [{"op": "pop"}, {"op": "remove", "id": 3}]],
        [[{"op": "remove", "id": 1}, {"op": "push", "o": o(1)}], [{"op": "pop"}, {"op": "find", "id": 1}]],
        [[{"op": "push", "o": o(3)}], [{"op": "remove", "id": 3}, {"op": "pop"}]],
    ]
    if tier == "thorough":
        progs += [
            [[{"op": "push", "o": o(3)}], [{"op": "pop"}], [{"op": "pop"}]],
            [[{"op": "push", "o": o(3)}, {"op": "remove", "id": 3}], [{"op": "pop"}, {"op": "pop"}], [{"op": "remove", "id": 1}]],
            [[{"op": "remove", "id": 1}, {"op": "push", "o": o(1)}], [{"op": "pop"}, {"op": "pop"}], [{"op": "push", "o": o(3)}, {"op": "pop"}]],
        ]
    return [{"init": base, "progs": p} for p in progs]


def queue_conc_part(res, work, tier, rng):
    """the queue half of C08; adds coverage to `res` and records violations"""
    scs = conc_queue_scenarios(tier)
    name = "GenQConc_%d" % os.getpid()
    path = os.path.join(SPEC, name + ".tla")
    body = ",\n  ".join(scen.tla(s) for s in scs)
    open(path, "w").write("---- MODULE %s ----\nEXTENDS QueueConcMC\nGenScenarios == <<\n  %s\n>>\nGenIds == 1..3\n====\n" % (name, body))
    try:
        cfg = work.path("qconc.cfg")
        open(cfg, "w").write("SPECIFICATION Spec\nCONSTANTS\n  Ids <- GenIds\n  DevPlainNoReduce = FALSE\n  Scenarios <- GenScenarios\n  EmitReplays = TRUE\nVIEW View\n"
                             "INVARIANT Inv_cover\nINVARIANT Inv_drained\nINVARIANT Inv_nobad\nINVARIANT Inv_Emit\nCHECK_DEADLOCK FALSE\n")
        r = require_ok(tlc(name, cfg, work, workers=8, timeout=3000), "model check of the concurrent queue")
    finally:
        os.remove(path)
    res.add(states=r["distinct"], transitions=r["generated"], queue_mc_states=r["distinct"], queue_mc_scenarios=len(scs))
    replays = r["prints"].get("REPLAY", [])
    hs = [{"init": scs[rp["sc"] - 1]["init"], "threads": scs[rp["sc"] - 1]["progs"], "sched": {"mode": "fixed", "seq": rp["sched"]}, "drain": True} for rp in replays]
    for i, sc in enumerate(scs):
        hs.append({"init": sc["init"], "threads": sc["progs"], "sched": {"mode": "random", "seed": seed() * 77 + i, "runs": 20 if tier == "quick" else 300}, "drain": True})
    h = run_harness("queue", hs, work, "qconc")
    s = tv(h["trace"], "TraceQueue", "TraceQueue", work, timeout=3000)
    res.add(traces_validated_against_impl=s["execs"], events_validated=s["lines"], queue_replays=len(replays), queue_drifts=len(s["drifts"]))
    judge(res, s, {"C08", "PANIC"}, hs, "concurrent queue execution", set())
    return len(s["drifts"])
