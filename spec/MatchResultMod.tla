--------------------------- MODULE MatchResultMod ---------------------------
(***************************************************************************)
(* A MatchResult built incrementally (src/execution/match_result.rs:28-75):*)
(*   New(taker, q)            remaining = q, is_complete = FALSE           *)
(*   AddTransaction(m, x)     remaining = remaining -. x.qty (saturating), *)
(*                            is_complete = (remaining = 0), x appended    *)
(*   AddFilled(m, id)         id appended to filled_order_ids              *)
(*   Executed(m)              sum of the transaction quantities            *)
(* Property C02, last sentence: remaining = initial - sum of transactions  *)
(* (0 once the sum exceeds the initial quantity), completion reported      *)
(* exactly when nothing remains.                                           *)
(***************************************************************************)
EXTENDS Integers, Sequences, FiniteSets, TLC, Functions, Json

SumQ(txs) == FoldFunctionOnSet(LAMBDA a, b : a + b, 0, [k \in DOMAIN txs |-> txs[k].qty], DOMAIN txs)
SumV(txs) == FoldFunctionOnSet(LAMBDA a, b : a + b, 0, [k \in DOMAIN txs |-> txs[k].qty * txs[k].px], DOMAIN txs)

New(taker, q) == [taker |-> taker, init |-> q, rem |-> q, complete |-> FALSE, txs |-> <<>>, filled |-> <<>>]
AddTransaction(m, x) ==
  LET r == IF m.rem >= x.qty THEN m.rem - x.qty ELSE 0 IN
  [m EXCEPT !.rem = r, !.complete = (r = 0), !.txs = Append(@, x)]
AddFilled(m, id) == [m EXCEPT !.filled = Append(@, id)]
Executed(m) == SumQ(m.txs)
ExecutedValue(m) == SumV(m.txs)

\* the property, as a predicate on a value that was built by New + any adds
Accounted(m) ==
  /\ m.rem = (IF m.init >= SumQ(m.txs) THEN m.init - SumQ(m.txs) ELSE 0)
  /\ (m.txs # <<>> => (m.complete <=> m.rem = 0))
  /\ (m.txs = <<>> => ~m.complete /\ m.rem = m.init)

-----------------------------------------------------------------------------
(* bounded exploration: every sequence of <= MaxOps appended transactions / filled ids *)
CONSTANTS Inits, Qtys, MaxOps, EmitReplays
VARIABLES m, ops
vars == <<m, ops>>
Tx(q, p) == [qty |-> q, px |-> p, maker |-> 1]
Init == \E q \in Inits : m = New(90, q) /\ ops = <<>>
Next == /\ Len(ops) < MaxOps
        /\ \/ \E q \in Qtys : m' = AddTransaction(m, Tx(q, 100)) /\ ops' = Append(ops, [op |-> "tx", qty |-> q])
           \/ m' = AddFilled(m, 1) /\ ops' = Append(ops, [op |-> "filled"])
Spec == Init /\ [][Next]_vars
Inv_Accounted == Accounted(m)
Inv_Executed == Executed(m) = SumQ(m.txs) /\ ExecutedValue(m) = 100 * Executed(m)
Inv_Emit == (EmitReplays /\ Len(ops) = MaxOps) => PrintT(<<"REPLAY", ToJson([init |-> m.init, ops |-> ops, final |-> [rem |-> m.rem, complete |-> m.complete, exe |-> Executed(m), nfilled |-> Len(m.filled)]])>>)
=============================================================================
