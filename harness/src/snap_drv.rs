//! C09: fault enumeration on serialized snapshot packages. For every level content, every
//! single-byte substitution / deletion / insertion at every offset, every truncation point and
//! a set of structural edits (and pairs of them) of the package JSON is fed to the real restore
//! entry points; one compact ND-JSON line per fault.

use crate::model::*;
use pricelevel::*;
use serde_json::{json, Value};

/// canonical rendering of what a level contains (price, aggregates, orders in listing order)
fn digest(l: &PriceLevel) -> String {
    // orders with equal timestamps are listed in map order, which differs between two levels:
    // canonical order = (timestamp, id)
    let mut ol = l.iter_orders();
    ol.sort_by_key(|o| (o.timestamp(), id_num(&o.id()), format!("{:?}", o.id())));
    let os: Vec<Value> = ol.iter().map(|o| order_json(o)).collect();
    json!({"price": l.price(), "vis": l.visible_quantity(), "hid": l.hidden_quantity(), "cnt": l.order_count(), "orders": os}).to_string()
}

fn try_restore(text: &str) -> (String, String) {
    let r = std::panic::catch_unwind(|| PriceLevel::from_snapshot_json(text));
    match r {
        Ok(Ok(l)) => ("ok".into(), digest(&l)),
        Ok(Err(_)) => ("err".into(), String::new()),
        Err(_) => ("panic".into(), String::new()),
    }
}

/// third entry point: the package's own `into_snapshot()` (validates, hands the snapshot out), then `from_snapshot`
fn try_restore_into(text: &str) -> (String, String) {
    let r = std::panic::catch_unwind(|| PriceLevelSnapshotPackage::from_json(text).and_then(|p| p.into_snapshot()).and_then(PriceLevel::from_snapshot));
    match r {
        Ok(Ok(l)) => ("ok".into(), digest(&l)),
        Ok(Err(_)) => ("err".into(), String::new()),
        Err(_) => ("panic".into(), String::new()),
    }
}

fn try_restore_pkg(text: &str) -> (String, String) {
    let r = std::panic::catch_unwind(|| PriceLevelSnapshotPackage::from_json(text).and_then(PriceLevel::from_snapshot_package));
    match r {
        Ok(Ok(l)) => ("ok".into(), digest(&l)),
        Ok(Err(_)) => ("err".into(), String::new()),
        Err(_) => ("panic".into(), String::new()),
    }
}

/// SHA-256 (hex) over the JSON of a snapshot: the specification's H(content)
pub fn h_of(snapshot: &PriceLevelSnapshot) -> String {
    use sha2::{Digest, Sha256};
    let payload = serde_json::to_vec(snapshot).unwrap_or_default();
    let mut hasher = Sha256::new();
    hasher.update(payload);
    format!("{:x}", hasher.finalize())
}

/// what the specification needs to know about a (possibly faulted) package text:
/// does it parse as a package at all, its version, its stored checksum, H of its content
fn facts(text: &[u8]) -> Value {
    match std::panic::catch_unwind(|| serde_json::from_slice::<PriceLevelSnapshotPackage>(text)) {
        Ok(Ok(p)) => json!({"parsed": true, "ver": p.version, "sum": p.checksum, "hsum": h_of(&p.snapshot)}),
        _ => json!({"parsed": false, "ver": 0, "sum": "", "hsum": ""}),
    }
}

/// The content a package text states, as far as C09 speaks of it: price, stored aggregates and the orders with
/// their fields.  Keys that are not fields of the format are dropped (the format tolerates unknown keys, and an
/// unknown key alters no field), and the one optional field (`replenish_amount`) reads as null when absent - so
/// that a fault which only renames the key of a null field is not counted as an alteration of the content.
const ORDER_FIELDS: [&str; 15] = ["id", "price", "quantity", "visible_quantity", "hidden_quantity", "side", "timestamp", "time_in_force", "trail_amount",
                                  "last_reference_price", "reference_price_offset", "reference_price_type", "replenish_threshold", "replenish_amount", "auto_replenish"];
fn canon_order(o: &Value) -> Value {
    match o.as_object() {
        Some(m) if m.len() == 1 => {
            let (variant, inner) = m.iter().next().unwrap();
            match inner.as_object() {
                Some(f) => {
                    let mut out = serde_json::Map::new();
                    for k in ORDER_FIELDS {
                        if let Some(x) = f.get(k) {
                            out.insert(k.to_string(), x.clone());
                        }
                    }
                    if variant == "ReserveOrder" && !out.contains_key("replenish_amount") {
                        out.insert("replenish_amount".into(), Value::Null);
                    }
                    json!({ variant.as_str(): Value::Object(out) })
                }
                None => o.clone(),
            }
        }
        _ => o.clone(),
    }
}
fn canon_snapshot(s: &Value) -> Value {
    let orders = match s["orders"].as_array() {
        Some(a) => Value::Array(a.iter().map(canon_order).collect()),
        None => s["orders"].clone(),
    };
    json!({"price": s["price"], "visible_quantity": s["visible_quantity"], "hidden_quantity": s["hidden_quantity"], "order_count": s["order_count"], "orders": orders})
}

/// what the PROPERTY needs to know about a faulted text, read off the text with a generic JSON parser
/// (no library type, no checksum recipe): is it JSON at all, the version it states, whether the stored
/// checksum and the content (price, stored aggregates, the order list) are those of the original package
fn jfacts(text: &[u8], orig: &Value) -> Value {
    match serde_json::from_slice::<Value>(text) {
        Ok(v) if v.is_object() => {
            let ver = v["version"].as_u64().map(|x| x.min(1 << 40) as i64).unwrap_or(-1);
            let sumsame = v["checksum"].is_string() && v["checksum"] == orig["checksum"];
            let (a, b) = (canon_snapshot(&v["snapshot"]), canon_snapshot(&orig["snapshot"]));
            let contentsame = a == b;
            // the version the ORIGINAL package states is by definition a supported one; any other value is either
            // unsupported or selects another checksum scheme than the one the stored checksum was made with
            let versame = v["version"] == orig["version"];
            json!({"parsed": true, "ver": ver, "versame": versame, "sumsame": sumsame, "contentsame": contentsame})
        }
        _ => json!({"parsed": false, "ver": -1, "versame": false, "sumsame": false, "contentsame": false}),
    }
}

thread_local! {
    static ORIG_PKG: std::cell::RefCell<Value> = std::cell::RefCell::new(Value::Null);
}

fn line(out: &mut Vec<String>, pk: usize, kind: &str, pos: usize, arg: &str, trunc: bool, res: (String, String), orig: &str, text: &[u8]) {
    // the digest is only written when it differs (keeps the trace small); "same" is a string
    // comparison result the specification re-checks on the lines that carry both digests
    let same = res.0 == "ok" && res.1 == orig;
    let j = ORIG_PKG.with(|o| jfacts(text, &o.borrow()));
    let mut v = json!({"k": "f", "pk": pk, "f": kind, "pos": pos, "arg": arg, "trunc": trunc, "res": res.0, "same": same, "pkg": facts(text), "j": j});
    if res.0 == "ok" && !same {
        v["got"] = json!(res.1);
    }
    out.push(v.to_string());
}

fn structural(pkg: &Value) -> Vec<(String, Value)> {
    let mut v = vec![];
    let n = pkg["snapshot"]["orders"].as_array().map(|a| a.len()).unwrap_or(0);
    let bump = |p: &Value, path: &[&str]| -> Value {
        let mut q = p.clone();
        {
            let mut cur = &mut q;
            for k in path {
                cur = &mut cur[*k];
            }
            let old = cur.as_u64().unwrap_or(0);
            *cur = json!(if old == u64::MAX { old - 1 } else { old + 1 });
        }
        q
    };
    v.push(("price".into(), bump(pkg, &["snapshot", "price"])));
    v.push(("version".into(), bump(pkg, &["version"])));
    // the neighbours and the extremes of the version figure (0 was never a version; u32::MAX; one beyond u32)
    for (name, val) in [("version0", json!(0)), ("versionmax", json!(u32::MAX)), ("versionbig", json!(1u64 << 32)), ("versionneg", json!(-1))] {
        let mut q = pkg.clone();
        q["version"] = val;
        v.push((name.into(), q));
    }
    let mut q = pkg.clone();
    q["checksum"] = json!("deadbeef");
    v.push(("checksum".into(), q));
    let mut q = pkg.clone();
    let cs = pkg["checksum"].as_str().unwrap_or("").to_string();
    q["checksum"] = json!(cs.to_uppercase());
    v.push(("checksum-upper".into(), q));
    for (name, val) in [("checksum-empty", String::new()), ("checksum-prefix", cs.chars().take(8).collect::<String>()),
                        ("checksum-short", cs.chars().take(cs.len().saturating_sub(1)).collect::<String>()), ("checksum-ext", format!("{cs}0"))] {
        let mut q = pkg.clone();
        q["checksum"] = json!(val);
        v.push((name.into(), q));
    }
    for f in ["visible_quantity", "hidden_quantity", "order_count"] {
        v.push((format!("agg-{f}"), bump(pkg, &["snapshot", f])));
    }
    for i in 0..n {
        let variant = pkg["snapshot"]["orders"][i].as_object().and_then(|o| o.keys().next().cloned()).unwrap_or_default();
        let fields: Vec<String> = pkg["snapshot"]["orders"][i][&variant].as_object().map(|o| o.keys().cloned().collect()).unwrap_or_default();
        for f in fields {
            let mut q = pkg.clone();
            let cur = q["snapshot"]["orders"][i][&variant][&f].clone();
            let newv = match &cur {
                Value::Number(x) if x.is_u64() => json!(if x.as_u64().unwrap() == u64::MAX { u64::MAX - 1 } else { x.as_u64().unwrap() + 1 }),
                Value::Number(x) => json!(x.as_i64().unwrap_or(0).wrapping_add(1)),
                Value::String(s) if s == "BUY" => json!("SELL"),
                Value::String(s) if s == "SELL" => json!("BUY"),
                Value::String(s) if s == "GTC" => json!("IOC"),
                Value::String(s) if s.len() == 36 => {
                    // an id: change its last hex digit
                    let mut t = s.clone();
                    let last = t.pop().unwrap_or('0');
                    t.push(if last == '0' { '1' } else { '0' });
                    json!(t)
                }
                Value::String(s) => json!(format!("{s}x")),
                Value::Bool(b) => json!(!b),
                Value::Null => continue,
                _ => continue,
            };
            q["snapshot"]["orders"][i][&variant][&f] = newv;
            v.push((format!("ord{i}-{f}"), q));
        }
        let mut q = pkg.clone();
        q["snapshot"]["orders"].as_array_mut().unwrap().remove(i);
        v.push((format!("drop{i}"), q));
        let mut q = pkg.clone();
        let o = q["snapshot"]["orders"][i].clone();
        q["snapshot"]["orders"].as_array_mut().unwrap().insert(i, o);
        v.push((format!("dup{i}"), q));
        if i + 1 < n {
            let mut q = pkg.clone();
            q["snapshot"]["orders"].as_array_mut().unwrap().swap(i, i + 1);
            v.push((format!("swap{i}"), q));
        }
    }
    v
}

pub fn run(sc: &Value, pk: usize) -> Vec<String> {
    let mut out = vec![];
    let level = PriceLevel::new(sc["price"].as_u64().unwrap_or(100));
    for o in sc["orders"].as_array().cloned().unwrap_or_default() {
        level.add_order(order_of(&o));
    }
    let gen = UuidGenerator::new(uuid::Uuid::nil());
    for q in sc["matches"].as_array().cloned().unwrap_or_default() {
        level.match_order(q.as_u64().unwrap_or(0), oid_of(90), &gen);
    }
    let text = match level.snapshot_to_json() {
        Ok(t) => t,
        Err(_) => return out,
    };
    let orig = digest(&level);
    let bytes = text.as_bytes().to_vec();
    ORIG_PKG.with(|o| *o.borrow_mut() = serde_json::from_str::<Value>(&text).unwrap_or(Value::Null));
    // the unmodified package must restore to the same content
    let base = try_restore(&text);
    out.push(json!({"k": "pkg", "pk": pk, "len": bytes.len(), "orig": orig, "res": base.0, "same": base.1 == orig, "text": text}).to_string());
    // every tenth byte fault also through into_snapshot()
    let mut nth = 0usize;
    // byte faults
    let subs: [u8; 4] = [b'7', b'0', b'"', 0xC3];
    let stride = sc["stride"].as_u64().unwrap_or(1) as usize;
    for pos in (0..bytes.len()).step_by(stride) {
        for s in subs {
            if bytes[pos] == s {
                continue;
            }
            let mut b = bytes.clone();
            b[pos] = s;
            if let Ok(t) = String::from_utf8(b) {
                nth += 1;
                if nth % 10 == 0 {
                    line(&mut out, pk, "subinto", pos, &format!("{s}"), false, try_restore_into(&t), &orig, t.as_bytes());
                }
                line(&mut out, pk, "sub", pos, &format!("{s}"), false, try_restore(&t), &orig, t.as_bytes());
            } else {
                // not valid UTF-8: the text API cannot even receive it; the byte-slice entry point is serde's
                let mut b2 = bytes.clone();
                b2[pos] = s;
                let r = std::panic::catch_unwind(|| serde_json::from_slice::<PriceLevelSnapshotPackage>(&b2).map_err(|_| ()).and_then(|p| PriceLevel::from_snapshot_package(p).map_err(|_| ())));
                let res = match r {
                    Ok(Ok(l)) => ("ok".to_string(), digest(&l)),
                    Ok(Err(_)) => ("err".to_string(), String::new()),
                    Err(_) => ("panic".to_string(), String::new()),
                };
                line(&mut out, pk, "subraw", pos, &format!("{s}"), false, res, &orig, &b2);
            }
        }
        let mut b = bytes.clone();
        b.remove(pos);
        if let Ok(t) = String::from_utf8(b) {
            line(&mut out, pk, "del", pos, "", false, try_restore(&t), &orig, t.as_bytes());
        }
        for s in [b'7', b',', b'}'] {
            let mut b = bytes.clone();
            b.insert(pos, s);
            if let Ok(t) = String::from_utf8(b) {
                line(&mut out, pk, "ins", pos, &format!("{s}"), false, try_restore(&t), &orig, t.as_bytes());
            }
        }
    }
    // every truncation point (torn write): every proper prefix
    for cut in 0..bytes.len() {
        if let Ok(t) = std::str::from_utf8(&bytes[..cut]) {
            line(&mut out, pk, "trunc", cut, "", true, try_restore(t), &orig, t.as_bytes());
        }
    }
    // structural edits, singly and in pairs, through both entry points
    if let Ok(pkg) = serde_json::from_str::<Value>(&text) {
        let singles = structural(&pkg);
        for (name, q) in &singles {
            let t = q.to_string();
            line(&mut out, pk, "struct", 0, name, false, try_restore(&t), &orig, t.as_bytes());
            line(&mut out, pk, "structpkg", 0, name, false, try_restore_pkg(&t), &orig, t.as_bytes());
            line(&mut out, pk, "structpkg", 1, name, false, try_restore_into(&t), &orig, t.as_bytes());
        }
        let maxpairs = sc["pairs"].as_u64().unwrap_or(300) as usize;
        let mut np = 0;
        'outer: for (n1, q1) in &singles {
            for (n2, q2) in structural(q1) {
                if np >= maxpairs {
                    break 'outer;
                }
                np += 1;
                let t2 = q2.to_string();
                line(&mut out, pk, "struct2", 0, &format!("{n1}+{n2}"), false, try_restore(&t2), &orig, t2.as_bytes());
            }
        }
        // content-preserving re-encodings must still restore to the same content
        let pretty = serde_json::to_string_pretty(&pkg).unwrap_or_default();
        line(&mut out, pk, "same-pretty", 0, "", false, try_restore(&pretty), &orig, pretty.as_bytes());
        let alias = text.replace("\"BUY\"", "\"Buy\"").replace("\"SELL\"", "\"sell\"").replace("\"GTC\"", "\"gtc\"");
        line(&mut out, pk, "same-alias", 0, "", false, try_restore(&alias), &orig, alias.as_bytes());
    }
    out
}
