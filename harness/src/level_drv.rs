//! Executes "level" scenarios against the real `PriceLevel` under the baton scheduler and
//! records ND-JSON traces for TLC (spec/TraceLevel.tla, spec/TraceSeq.tla).

use crate::model::*;
use crate::sched::*;
use pricelevel::verif_shim::Event;
use pricelevel::*;
use serde_json::{json, Value};
use std::collections::HashMap;
use std::sync::{Arc, Mutex};

pub struct Out {
    pub lines: Mutex<Vec<String>>,
}
impl Out {
    pub fn push(&self, v: Value) {
        self.lines.lock().unwrap().push(v.to_string());
    }
}

pub fn gen_namespace() -> uuid::Uuid {
    uuid::Uuid::nil()
}

/// transaction id -> n such that id = v5(namespace, n) (the model's name for it); an id that is not of
/// that form gets a fresh negative number, the same one every time it is seen: distinct ids stay distinct
/// (C02 / C14 speak of uniqueness only; the derivation is conformance to the model)
pub struct TxIds {
    tab: Mutex<(HashMap<uuid::Uuid, i64>, u64)>,
    other: Mutex<HashMap<uuid::Uuid, i64>>,
}
impl TxIds {
    pub fn new() -> Self {
        TxIds { tab: Mutex::new((HashMap::new(), 0)), other: Mutex::new(HashMap::new()) }
    }
    pub fn index(&self, id: &uuid::Uuid, hint: u64) -> i64 {
        let mut g = self.tab.lock().unwrap();
        let want = hint + 64;
        while g.1 < want {
            let n = g.1;
            let u = uuid::Uuid::new_v5(&gen_namespace(), n.to_string().as_bytes());
            g.0.insert(u, n as i64);
            g.1 += 1;
        }
        if let Some(n) = g.0.get(id) {
            return *n;
        }
        let mut o = self.other.lock().unwrap();
        let k = -(o.len() as i64) - 2;
        *o.entry(*id).or_insert(k)
    }
}

pub fn match_json(r: &MatchResult, tx: &TxIds, hint: u64) -> Value {
    let txs: Vec<Value> = r
        .transactions
        .as_vec()
        .iter()
        .map(|t| {
            json!({"maker": id_num(&t.maker_order_id), "qty": sq(t.quantity), "px": pq(t.price),
                   "taker": id_num(&t.taker_order_id), "tside": side_str(t.taker_side),
                   "txid": tx.index(&t.transaction_id, hint)})
        })
        .collect();
    let exe = std::panic::catch_unwind(|| r.executed_quantity()).map(sq).unwrap_or(-CLAMP);
    json!({"t": "match", "taker": id_num(&r.order_id), "rem": sq(r.remaining_quantity), "complete": r.is_complete,
           "txs": txs, "filled": r.filled_order_ids.iter().map(id_num).collect::<Vec<_>>(), "exe": exe})
}

pub fn update_of(c: &Value) -> Option<OrderUpdate> {
    let id = oid_of(c["id"].as_u64().unwrap_or(0));
    let p = inp(c["p"].as_u64().unwrap_or(0));
    let q = inq(c["q"].as_u64().unwrap_or(0));
    Some(match c["op"].as_str()? {
        "cancel" => OrderUpdate::Cancel { order_id: id },
        "move" => OrderUpdate::UpdatePrice { order_id: id, new_price: p },
        "amend" => OrderUpdate::UpdateQuantity { order_id: id, new_quantity: q },
        "upq" => OrderUpdate::UpdatePriceAndQuantity { order_id: id, new_price: p, new_quantity: q },
        "replace" => OrderUpdate::Replace { order_id: id, price: p, quantity: q, side: side_of(c["side"].as_str().unwrap_or("Buy")) },
        _ => return None,
    })
}

pub fn update_ret_json(r: &Result<Option<Arc<OrderType<()>>>, PriceLevelError>) -> Value {
    match r {
        Ok(Some(o)) => json!({"t": "some", "o": order_json(o)}),
        Ok(None) => json!({"t": "none"}),
        Err(_) => json!({"t": "err"}),
    }
}

/// Performs one call on the level and renders its result.
pub fn do_call(l: &PriceLevel, g: &UuidGenerator, tx: &TxIds, c: &Value) -> Value {
    match c["op"].as_str().unwrap_or("") {
        "add" => {
            let o = l.add_order(order_of(&c["o"]));
            json!({"t": "some", "o": order_json(&o)})
        }
        "match" => {
            let r = l.match_order(inq(c["q"].as_u64().unwrap_or(0)), oid_of(c["taker"].as_u64().unwrap_or(90)), g);
            match_json(&r, tx, g.verif_counter().0)
        }
        "read" => {
            let v = l.visible_quantity();
            let h = l.hidden_quantity();
            let n = l.order_count();
            json!({"t": "read", "vis": sq(v), "hid": sq(h), "cnt": sint_usize(n)})
        }
        "list" => {
            let os = l.iter_orders();
            json!({"t": "list", "orders": os.iter().map(|o| order_json(o)).collect::<Vec<_>>()})
        }
        "snapshot" => {
            let s = l.snapshot();
            json!({"t": "snapshot", "vis": sq(s.visible_quantity), "hid": sq(s.hidden_quantity), "cnt": sint_usize(s.order_count),
                   "orders": s.orders.iter().map(|o| order_json(o)).collect::<Vec<_>>()})
        }
        "display" => {
            let s = l.to_string();
            json!({"t": "ro", "len": s.len()})
        }
        "serialize" => {
            let s = serde_json::to_string(l).unwrap_or_default();
            json!({"t": "ro", "len": s.len()})
        }
        "snapjson" => {
            let s = l.snapshot_to_json().unwrap_or_default();
            json!({"t": "ro", "len": s.len()})
        }
        "stats" => {
            let s = l.stats();
            let _ = (s.orders_added(), s.orders_removed(), s.orders_executed(), s.quantity_executed(), s.value_executed());
            let _ = (s.average_execution_price(), s.average_waiting_time(), s.time_since_last_execution());
            let t = s.to_string();
            let j = serde_json::to_string(&*s).unwrap_or_default();
            json!({"t": "ro", "len": t.len() + j.len()})
        }
        _ => match update_of(c) {
            Some(u) => update_ret_json(&l.update_order(u)),
            None => json!({"t": "badcall"}),
        },
    }
}

/// the call with its order (if any) in canonical, complete form
pub fn canon_call(c: &Value) -> Value {
    let mut c = c.clone();
    if c.get("o").is_some() {
        c["o"] = order_json(&order_of(&c["o"]));
    }
    c
}

/// Builds a second level from `l` through one of the restore paths. With `lie`, the aggregate
/// figures carried by the external input are falsified first (they must not be believed).
pub fn restore_via(l: &PriceLevel, via: &str, lie: bool, low: bool, only: &str) -> Result<PriceLevel, String> {
    // the falsified figures: overstated, or (low) understated; `only` = vis | hid | cnt falsifies that one figure and
    // leaves the other two TRUE (an input whose count is right but whose quantities are not, and so on)
    let (tv, th, tc) = (l.visible_quantity(), l.hidden_quantity(), l.order_count());
    let (lv, lh, lc): (u64, u64, usize) = if low { (0, 0, 0) } else { (12345, 999, 77) };
    // a one-figure lie must really differ from the truth
    let (lv, lh, lc) = (if lv == tv { tv + 5 } else { lv }, if lh == th { th + 5 } else { lh }, if lc == tc { tc + 5 } else { lc });
    let (fv, fh, fc) = match only {
        "vis" => (lv, th, tc),
        "hid" => (tv, lh, tc),
        "cnt" => (tv, th, lc),
        _ => (lv, lh, lc),
    };
    use std::str::FromStr;
    let mut snap = l.snapshot();
    if lie {
        snap.visible_quantity = fv;
        snap.hidden_quantity = fh;
        snap.order_count = fc;
    }
    let e = |x: PriceLevelError| x.to_string();
    match via {
        "snapshot" => PriceLevel::from_snapshot(snap).map_err(e),
        "from_ref" => Ok(PriceLevel::from(&snap)),
        "package" => PriceLevel::from_snapshot_package(PriceLevelSnapshotPackage::new(snap).map_err(e)?).map_err(e),
        "json" => {
            let js = if lie { PriceLevelSnapshotPackage::new(snap).map_err(e)?.to_json().map_err(e)? } else { l.snapshot_to_json().map_err(e)? };
            PriceLevel::from_snapshot_json(&js).map_err(e)
        }
        // a package assembled by hand (public fields) around the possibly lying snapshot, with the
        // checksum of exactly that content: it validates, and the aggregates must still be derived
        "package_forged" | "json_forged" if !forge_possible(l) => Err("forge-unavailable".into()),
        "package_forged" => {
            let p = PriceLevelSnapshotPackage { version: 1, checksum: crate::snap_drv::h_of(&snap), snapshot: snap };
            PriceLevel::from_snapshot_package(p).map_err(e)
        }
        "json_forged" => {
            let p = PriceLevelSnapshotPackage { version: 1, checksum: crate::snap_drv::h_of(&snap), snapshot: snap };
            PriceLevel::from_snapshot_json(&p.to_json().map_err(e)?).map_err(e)
        }
        "data" => {
            let mut d = PriceLevelData::from(l);
            if lie {
                d.visible_quantity = fv;
                d.hidden_quantity = fh;
                d.order_count = fc;
            }
            PriceLevel::try_from(d).map_err(e)
        }
        "data_json" => {
            let mut v: Value = serde_json::to_value(l).map_err(|x| x.to_string())?;
            if lie {
                v["visible_quantity"] = json!(fv);
                v["hidden_quantity"] = json!(fh);
                v["order_count"] = json!(fc);
            }
            serde_json::from_value::<PriceLevel>(v).map_err(|x| x.to_string())
        }
        "text" => {
            let mut t = l.to_string();
            if lie {
                let (v, h, c) = (l.visible_quantity(), l.hidden_quantity(), l.order_count());
                t = t.replacen(&format!("visible_quantity={v};hidden_quantity={h};order_count={c};"), &format!("visible_quantity={fv};hidden_quantity={fh};order_count={fc};"), 1);
            }
            PriceLevel::from_str(&t).map_err(e)
        }
        _ => Err("unknown path".into()),
    }
}

/// A package can be forged from outside only by someone who knows how the library stamps its packages.
/// The harness knows the pinned recipe (SHA-256 of the content JSON); if the library's own packages are no
/// longer stamped that way the forged paths are not available (reported as model drift, not as a failure).
fn forge_possible(l: &PriceLevel) -> bool {
    match PriceLevelSnapshotPackage::new(l.snapshot()) {
        Ok(p) => p.checksum == crate::snap_drv::h_of(&p.snapshot),
        Err(_) => false,
    }
}

fn panic_msg(e: &Box<dyn std::any::Any + Send>) -> String {
    if let Some(s) = e.downcast_ref::<&str>() {
        s.to_string()
    } else if let Some(s) = e.downcast_ref::<String>() {
        s.clone()
    } else {
        "?".into()
    }
}

// ---------------------------------------------------------------------------------------------
// choosers

pub struct Fixed {
    pub seq: Vec<usize>,
    pub pos: usize,
    pub skip_stats: bool,
    pub labels: Arc<Labels>,
}
impl Chooser for Fixed {
    fn choose(&mut self, runnable: &[usize], pending: &[Option<Pending>], last: Option<usize>) -> usize {
        if self.skip_stats {
            if let Some(l) = last {
                if runnable.contains(&l) {
                    if let Some(p) = &pending[l] {
                        if self.labels.is_stat(p.oid) {
                            return l; // statistics operations are folded into the preceding model step
                        }
                    }
                }
            }
        }
        while self.pos < self.seq.len() {
            let c = self.seq[self.pos];
            self.pos += 1;
            if runnable.contains(&c) {
                return c;
            }
        }
        runnable[0]
    }
}

pub struct Random {
    pub rng: Rng,
}
impl Chooser for Random {
    fn choose(&mut self, runnable: &[usize], _p: &[Option<Pending>], _l: Option<usize>) -> usize {
        runnable[self.rng.below(runnable.len())]
    }
}

/// PCT-style: random priorities, `d` priority change points among the first `horizon` steps.
pub struct Pct {
    pub prio: Vec<u64>,
    pub change: Vec<usize>,
    pub step: usize,
    pub low: u64,
}
impl Pct {
    pub fn new(n: usize, d: usize, horizon: usize, rng: &mut Rng) -> Self {
        let mut prio: Vec<u64> = (0..n).map(|i| 1000 + i as u64).collect();
        for i in (1..n).rev() {
            let j = rng.below(i + 1);
            prio.swap(i, j);
        }
        let change = (0..d).map(|_| rng.below(horizon.max(1))).collect();
        Pct { prio, change, step: 0, low: 999 }
    }
}
impl Chooser for Pct {
    fn choose(&mut self, runnable: &[usize], _p: &[Option<Pending>], _l: Option<usize>) -> usize {
        let c = *runnable.iter().max_by_key(|&&i| self.prio[i]).unwrap();
        if self.change.contains(&self.step) {
            self.prio[c] = self.low;
            self.low -= 1;
        }
        self.step += 1;
        *runnable.iter().max_by_key(|&&i| self.prio[i]).unwrap()
    }
}

// ---------------------------------------------------------------------------------------------

struct Exec {
    level: Arc<PriceLevel>,
    gen: Arc<UuidGenerator>,
    labels: Arc<Labels>,
}

fn build(sc: &Value) -> Exec {
    let price = inp(sc["price"].as_u64().unwrap_or(100));
    let level = Arc::new(PriceLevel::new(price));
    for o in sc["init"].as_array().cloned().unwrap_or_default() {
        level.add_order(order_of(&o));
    }
    // statistics of the initial fill are not part of the scenario: the model starts from zero
    level.stats().reset();
    let gen = Arc::new(UuidGenerator::new(gen_namespace()));
    let labels = Arc::new(Labels::of_level(&level, Some(&gen)));
    Exec { level, gen, labels }
}

fn parse_ev_num(s: &str) -> i64 {
    s.parse::<u64>().map(sint).unwrap_or(0)
}

/// One execution of a scenario under `chooser`. Returns the schedule taken.
#[allow(clippy::too_many_arguments)]
fn run_once(sched: &Arc<Sched>, sc: &Value, sc_ix: usize, run_ix: usize, micro: bool, out: &Arc<Out>, tx: &Arc<TxIds>, mk_chooser: &mut dyn FnMut(&Arc<Labels>, usize) -> Box<dyn Chooser>) -> Vec<usize> {
    let ex = build(sc);
    let progs: Vec<Vec<Value>> = sc["threads"].as_array().map(|a| a.iter().map(|p| p.as_array().cloned().unwrap_or_default()).collect()).unwrap_or_default();
    let n = progs.len();
    let budget = sc["budget"].as_u64().unwrap_or(400) as usize;
    let drain = sc["drain"].as_bool().unwrap_or(false);
    out.push(json!({"k": "reset", "sc": sc_ix, "run": run_ix, "price": sc["price"].as_u64().unwrap_or(100), "n": n + 1,
                    "st": state_json(&ex.level, Some(&ex.gen), true)}));

    // op events: logged by the worker that performed them, while it still holds the baton
    let id_names: Arc<Mutex<HashMap<String, i64>>> = Arc::new(Mutex::new(HashMap::new()));
    let prev_map: Arc<Mutex<Value>> = Arc::new(Mutex::new(map_json(&ex.level)));
    let after: Arc<AfterFn> = {
        let (level, gen, labels, out, id_names, prev_map) = (ex.level.clone(), ex.gen.clone(), ex.labels.clone(), out.clone(), id_names.clone(), prev_map.clone());
        Arc::new(move |w: usize, ev: &Event, res: &str| {
            if !micro {
                return;
            }
            let lab = labels.by_oid.get(&ev.oid).copied().unwrap_or("unknown");
            let mut line = json!({"k": "op", "t": w + 1, "o": lab, "op": ev.op, "a": agg_json(&level)});
            match lab {
                "map" => {
                    // event in the model's shape: insert(v = order, r = previous entry),
                    // remove/get(v = id, r = entry or none); the map content after a mutation is "m"
                    // get_mut hands out a guard that holds the shard's write lock while this observer runs: walking
                    // the map now would block for ever; the last walk stands (and the trace specification treats an
                    // execution with in-place writes as one whose map content the observer cannot vouch for)
                    let now = if ev.op == "get_mut" { prev_map.lock().unwrap().clone() } else { map_json(&level) };
                    let key = key_num(&id_names, &ev.arg);
                    let find = |m: &Value| -> Value { m.as_array().and_then(|a| a.iter().find(|o| o["id"].as_i64() == Some(key)).cloned()).unwrap_or_else(no_order) };
                    let mut pm = prev_map.lock().unwrap();
                    match ev.op {
                        "insert" => {
                            line["v"] = find(&now);
                            line["r"] = find(&pm);
                            line["m"] = now.clone();
                        }
                        "remove" => {
                            line["v"] = json!(key);
                            line["r"] = if res == "true" { find(&pm) } else { no_order() };
                            line["m"] = now.clone();
                        }
                        "get" | "get_mut" => {
                            line["v"] = json!(key);
                            line["r"] = if res == "true" { find(&now) } else { no_order() };
                        }
                        "iter" | "len" | "is_empty" => {
                            line["v"] = json!(0);
                            line["r"] = json!(0);
                        }
                        _ => {
                            line["v"] = json!(0);
                            line["r"] = json!(0);
                            line["m"] = now.clone();
                        }
                    }
                    *pm = now;
                }
                "tickets" => {
                    line["q"] = tickets_json(&level);
                    line["v"] = json!(if ev.op == "push" { key_num(&id_names, &ev.arg) } else { 0 });
                    line["r"] = json!(if ev.op == "pop" { pop_num(&id_names, res) } else { 0 });
                }
                "st_last" | "st_first" | "st_wait" => {
                    line["v"] = json!(0);
                    line["r"] = json!(0);
                }
                _ => {
                    line["v"] = json!(parse_ev_num(&ev.arg));
                    line["r"] = json!(parse_ev_num(res));
                    if lab == "gen" {
                        line["g"] = json!(sint(gen.verif_counter().0));
                    }
                }
            }
            out.push(line);
        })
    };
    sched.set_after(Some(after));

    let incall = Arc::new(Mutex::new(0usize));
    let mk_job = |w: usize, prog: Vec<Value>| -> Job {
        let (level, gen, out, tx, sched2, incall) = (ex.level.clone(), ex.gen.clone(), out.clone(), tx.clone(), sched.clone(), incall.clone());
        Box::new(move || {
            let mut second: Option<(Arc<PriceLevel>, Arc<UuidGenerator>)> = None;
            for c in prog {
                if c["op"] == "add" && c["fresh"].as_bool().unwrap_or(true) {
                    // precondition of the properties: ids are unique among the resting orders
                    let id = oid_of(c["o"]["id"].as_u64().unwrap_or(0));
                    if unregistered(|| level.verif_queue().verif_orders().iter().any(|x| x.id() == id)) {
                        continue;
                    }
                }
                sched2.reset_steps(w);
                if c["op"] == "restore" || c["op"] == "fork" {
                    let via = c["via"].as_str().unwrap_or("snapshot").to_string();
                    let lie = c["lie"].as_bool().unwrap_or(false);
                    let low = c["low"].as_bool().unwrap_or(false);
                    let only = c["only"].as_str().unwrap_or("").to_string();
                    let r = unregistered(|| std::panic::catch_unwind(std::panic::AssertUnwindSafe(|| restore_via(&level, &via, lie, low, &only))));
                    let kind = if c["op"] == "fork" { "fork" } else { "restore" };
                    let mut line = json!({"k": kind, "t": w + 1, "via": via, "lie": lie, "st": unregistered(|| state_json(&level, Some(&gen), true))});
                    match r {
                        Ok(Ok(l2)) => {
                            let g2 = Arc::new(UuidGenerator::new(gen_namespace()));
                            line["ok"] = json!(true);
                            line["price2"] = json!(pq(l2.price()));
                            line["st2"] = unregistered(|| state_json(&l2, Some(&g2), true));
                            if kind == "fork" {
                                second = Some((Arc::new(l2), g2));
                            }
                        }
                        Ok(Err(e)) => {
                            line["ok"] = json!(false);
                            if e == "forge-unavailable" {
                                line["na"] = json!(true);
                            }
                            line["err"] = json!(e);
                        }
                        Err(_) => {
                            line["ok"] = json!(false);
                            line["err"] = json!("panic");
                        }
                    }
                    out.push(line);
                    continue;
                }
                *incall.lock().unwrap() += 1;
                if micro {
                    out.push(json!({"k": "call", "t": w + 1, "c": canon_call(&c)}));
                }
                let r = std::panic::catch_unwind(std::panic::AssertUnwindSafe(|| do_call(&level, &gen, &tx, &c)));
                let quiet = {
                    let mut g = incall.lock().unwrap();
                    *g -= 1;
                    *g == 0
                };
                let conv = |r: std::thread::Result<Value>| -> (Value, bool) {
                    match r {
                        Ok(v) => (v, false),
                        Err(e) => {
                            let m = panic_msg(&e);
                            if m == BUDGET_PANIC {
                                (json!({"t": "hang"}), true)
                            } else {
                                (json!({"t": "panic", "msg": m}), true)
                            }
                        }
                    }
                };
                let (rv, mut stop) = conv(r);
                if micro {
                    let mut line = json!({"k": "ret", "t": w + 1, "r": rv});
                    if quiet {
                        line["st"] = unregistered(|| state_json(&level, Some(&gen), false));
                    }
                    out.push(line);
                } else {
                    let mut line = json!({"k": "cr", "t": w + 1, "c": canon_call(&c), "r": rv, "st": unregistered(|| state_json(&level, Some(&gen), true))});
                    if let Some((l2, g2)) = &second {
                        // the same call on the restored level (lock-step, C11)
                        sched2.reset_steps(w);
                        let (r2, stop2) = conv(std::panic::catch_unwind(std::panic::AssertUnwindSafe(|| do_call(l2, g2, &tx, &c))));
                        line["r2"] = r2;
                        line["st2"] = unregistered(|| state_json(l2, Some(g2), true));
                        stop = stop || stop2;
                    }
                    out.push(line);
                }
                sched2.note_call_done(w);
                if stop {
                    break;
                }
            }
        })
    };

    let jobs: Vec<Job> = progs.iter().cloned().enumerate().map(|(w, p)| mk_job(w, p)).collect();
    let mut schedule = {
        let mut ch = mk_chooser(&ex.labels, n);
        let (s, _) = sched.run(jobs, budget, ch.as_mut());
        s
    };
    if drain {
        let q = sc["drain_q"].as_u64().unwrap_or(1_000_000);
        let jobs: Vec<Job> = (0..=n).map(|w| if w == n { mk_job(w, vec![json!({"op": "match", "q": q, "taker": 99})]) } else { mk_job(w, vec![]) }).collect();
        let mut ch = Fixed { seq: vec![], pos: 0, skip_stats: false, labels: ex.labels.clone() };
        let (s, _) = sched.run(jobs, budget.max(2000), &mut ch);
        schedule.extend(s);
    }
    sched.set_after(None);
    out.push(json!({"k": "end", "st": state_json(&ex.level, Some(&ex.gen), true),
                    "sched": schedule.iter().map(|t| t + 1).collect::<Vec<_>>()}));
    schedule
}

fn key_num(tab: &Arc<Mutex<HashMap<String, i64>>>, dbg: &str) -> i64 {
    let mut g = tab.lock().unwrap();
    if g.is_empty() {
        for n in 0..64u64 {
            g.insert(format!("{:?}", oid_of(n)), n as i64);
        }
        for n in [90u64, 99] {
            g.insert(format!("{:?}", oid_of(n)), n as i64);
        }
    }
    *g.get(dbg).unwrap_or(&-1)
}

fn pop_num(tab: &Arc<Mutex<HashMap<String, i64>>>, dbg: &str) -> i64 {
    // "Some(<id debug>)" | "None"
    if let Some(inner) = dbg.strip_prefix("Some(").and_then(|s| s.strip_suffix(')')) {
        key_num(tab, inner)
    } else {
        0
    }
}

/// Runs every scenario of `scs` according to its `sched` field; returns trace lines and, per
/// scenario, the schedules taken.
pub fn run_scenarios(scs: &[Value]) -> (Vec<String>, Vec<Value>) {
    let sched = Sched::new();
    pricelevel::verif_shim::set_hook(Some(sched.clone()));
    let out = Arc::new(Out { lines: Mutex::new(vec![]) });
    let tx = Arc::new(TxIds::new());
    let mut meta = vec![];
    for (ix, sc) in scs.iter().enumerate() {
        // scaled run (see model.rs): only meaningful for macro recordings of single-threaded histories
        SCALE.store(sc["scale"].as_u64().unwrap_or(1).max(1), std::sync::atomic::Ordering::Relaxed);
        PSCALE.store(sc["pscale"].as_u64().unwrap_or(1).max(1), std::sync::atomic::Ordering::Relaxed);
        TSOFF.store(sc["tsoff"].as_str().and_then(|x| x.parse::<u64>().ok()).or(sc["tsoff"].as_u64()).unwrap_or(0), std::sync::atomic::Ordering::Relaxed);
        ULID_IDS.store(sc["ulid"].as_bool().unwrap_or(false), std::sync::atomic::Ordering::Relaxed);
        TWIN_IDS.store(sc["twins"].as_bool().unwrap_or(false), std::sync::atomic::Ordering::Relaxed);
        let micro = sc["log"].as_str().unwrap_or("micro") == "micro";
        let sd = &sc["sched"];
        let mode = sd["mode"].as_str().unwrap_or("fixed");
        let mut schedules: Vec<Vec<usize>> = vec![];
        match mode {
            "random" | "pct" => {
                let runs = sd["runs"].as_u64().unwrap_or(1) as usize;
                let mut rng = Rng(sd["seed"].as_u64().unwrap_or(1) ^ ((ix as u64) << 20));
                for r in 0..runs {
                    let seed = rng.next();
                    let pct = mode == "pct";
                    let d = sd["d"].as_u64().unwrap_or(2) as usize;
                    let mut mk = move |_l: &Arc<Labels>, n: usize| -> Box<dyn Chooser> {
                        let mut rg = Rng(seed);
                        if pct {
                            Box::new(Pct::new(n, d, 40, &mut rg))
                        } else {
                            Box::new(Random { rng: rg })
                        }
                    };
                    schedules.push(run_once(&sched, sc, ix, r, micro, &out, &tx, &mut mk));
                }
            }
            "starve" => {
                let n = sc["threads"].as_array().map(|a| a.len()).unwrap_or(1);
                for v in 0..n {
                    let sch = sched.clone();
                    let mut mk = move |_l: &Arc<Labels>, _n: usize| -> Box<dyn Chooser> { Box::new(Starve { sched: sch.clone(), victim: v, other: None, next_other: 0, victim_turn: true }) };
                    schedules.push(run_once(&sched, sc, ix, v, micro, &out, &tx, &mut mk));
                }
            }
            "dfs" => {
                // enumerate schedules of the real code with at most `pb` pre-emptions
                let pb = sd["pb"].as_u64().unwrap_or(2) as usize;
                let max = sd["max"].as_u64().unwrap_or(500) as usize;
                let mut stack: Vec<Vec<usize>> = vec![vec![]];
                let mut run_ix = 0;
                while let Some(prefix) = stack.pop() {
                    if run_ix >= max {
                        break;
                    }
                    let rec: Arc<Mutex<(Vec<Vec<usize>>, Vec<usize>)>> = Arc::new(Mutex::new((vec![], vec![])));
                    {
                        let rec2 = rec.clone();
                        let pfx = prefix.clone();
                        let mut mk = move |_l: &Arc<Labels>, _n: usize| -> Box<dyn Chooser> { Box::new(DfsOwned { prefix: pfx.clone(), pos: 0, rec: rec2.clone() }) };
                        schedules.push(run_once(&sched, sc, ix, run_ix, micro, &out, &tx, &mut mk));
                    }
                    run_ix += 1;
                    let (alts, taken) = rec.lock().unwrap().clone();
                    // children: at every decision at or after the prefix, each alternative not taken
                    for i in (prefix.len()..taken.len()).rev() {
                        for &a in &alts[i] {
                            if a != taken[i] {
                                let mut child: Vec<usize> = taken[..i].to_vec();
                                child.push(a);
                                if preemptions(&child, &alts) <= pb {
                                    stack.push(child);
                                }
                            }
                        }
                    }
                }
            }
            _ => {
                let seq: Vec<usize> = sd["seq"].as_array().map(|a| a.iter().map(|x| (x.as_u64().unwrap_or(1) as usize).saturating_sub(1)).collect()).unwrap_or_default();
                let skip = sd["skip_stats"].as_bool().unwrap_or(false);
                let mut mk = |l: &Arc<Labels>, _n: usize| -> Box<dyn Chooser> { Box::new(Fixed { seq: seq.clone(), pos: 0, skip_stats: skip, labels: l.clone() }) };
                schedules.push(run_once(&sched, sc, ix, 0, micro, &out, &tx, &mut mk));
            }
        }
        meta.push(json!({"sc": ix, "runs": schedules.len(), "schedules": schedules.iter().take(3).map(|s| s.iter().map(|t| t + 1).collect::<Vec<_>>()).collect::<Vec<_>>()}));
    }
    pricelevel::verif_shim::set_hook(None);
    let lines = std::mem::take(&mut *out.lines.lock().unwrap());
    (lines, meta)
}

struct DfsOwned {
    prefix: Vec<usize>,
    pos: usize,
    rec: Arc<Mutex<(Vec<Vec<usize>>, Vec<usize>)>>,
}
impl Chooser for DfsOwned {
    fn choose(&mut self, runnable: &[usize], _p: &[Option<Pending>], last: Option<usize>) -> usize {
        let c = if self.pos < self.prefix.len() && runnable.contains(&self.prefix[self.pos]) {
            self.prefix[self.pos]
        } else {
            match last {
                Some(l) if runnable.contains(&l) => l,
                _ => runnable[0],
            }
        };
        self.pos += 1;
        let mut g = self.rec.lock().unwrap();
        g.0.push(runnable.to_vec());
        g.1.push(c);
        c
    }
}

/// number of decisions where the previous thread was still runnable but another one was chosen
fn preemptions(seq: &[usize], alts: &[Vec<usize>]) -> usize {
    let mut n = 0;
    for i in 1..seq.len() {
        if seq[i] != seq[i - 1] && alts.get(i).map(|a| a.contains(&seq[i - 1])).unwrap_or(false) {
            n += 1;
        }
    }
    n
}
