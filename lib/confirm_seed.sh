#!/bin/sh
# usage: confirm_seed.sh <worktree> ; confirms: compiles (cfg on), tests pass with the change, demo fails with it and passes without
wt=$1
cd $wt || exit 2
echo "== patch"; cat seed_out/patch.diff | head -60
echo "== build with cfg"; RUSTFLAGS="--cfg pricelevel_verif" cargo build --offline --target-dir $wt/target_on 2>&1 | tail -1; rm -rf $wt/target_on
echo "== tests with change"; cargo test --workspace --offline 2>&1 | grep -E "^test result: .* [1-9][0-9]+ passed|FAILED" | head -3
echo "== demo with change"; timeout 600 cargo run --offline -q -p examples --bin seed_demo >/tmp/demo_with.log 2>&1; echo "exit=$?"; tail -3 /tmp/demo_with.log
git diff -- src > $wt/seed_out/.confirm.diff; git checkout -- src
echo "== demo without change"; timeout 600 cargo run --offline -q -p examples --bin seed_demo >/tmp/demo_without.log 2>&1; echo "exit=$?"; tail -2 /tmp/demo_without.log
git apply $wt/seed_out/.confirm.diff; rm -f $wt/seed_out/.confirm.diff
git diff --stat -- src | tail -1
