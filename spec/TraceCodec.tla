------------------------------ MODULE TraceCodec ------------------------------
(***************************************************************************)
(* C16 / C17 / C18 on recordings of the real codecs (harness `codec`).     *)
(* "c" line: value v (numbers as strings), the text the library printed,   *)
(* the value parsed back from it, the JSON it produced and the value       *)
(* deserialized from that.  Checked against Codec.tla:                     *)
(*    text = EncText(ty, v)   /\  parse succeeded  /\  SameValue           *)
(*    json = EncJson(ty, v)   /\  parse succeeded  /\  SameValue           *)
(*    a snapshot package still validates after the trip.                   *)
(* "p" line: outcome counts of one parser on one family of malformed       *)
(* inputs.  The parse actions of the specification have the outcome        *)
(* alphabet {ok, err}; a panic is not a step of the specification.         *)
(***************************************************************************)
EXTENDS Codec, Json, IOUtils, FiniteSetsExt

Rec == ndJsonDeserialize(IOEnv.TRACE)
Has(r, f) == f \in DOMAIN r
C == {i \in DOMAIN Rec : Rec[i].k = "c"}
P == {i \in DOMAIN Rec : Rec[i].k = "p"}

(* The property (C16 / C17) is the ROUND TRIP: the text or JSON the library produced parses back,
   in the library, to an equal value.  That the text is letter for letter the one the format model
   prints is conformance of the code to the model, not part of the property: a mismatch there is
   reported as drift (the injectivity result of MCCodec then does not transfer). *)
TextOk(e) == Has(e, "text") => e.tok /\ SameValue(e.ty, e.v, e.tback)
TextFormat(e) == Has(e, "text") =>
               /\ (HasText(e.ty) /\ ~SetLike(e.ty) => e.text = EncText(e.ty, e.v))
               \* level / queue: the text lists the orders in listing order, which the recorded value shares
               /\ (e.ty = "level" => e.text = EncText(e.ty, e.v))
JsonOk(e) == Has(e, "json") =>
               /\ e.jok /\ SameValue(e.ty, e.v, e.jback)
               /\ (e.ty \in {"pkg", "pkgseq"} => e.valid)
JsonFormat(e) == (Has(e, "json") /\ HasJson(e.ty)) => e.json = EncJson(e.ty, e.v)
ParseOk(e) == e.panic = 0 /\ e.ok + e.err = e.n

BadText == {i \in C : ~TextOk(Rec[i])}
BadJson == {i \in C : ~JsonOk(Rec[i])}
DriftText == {i \in C : ~TextFormat(Rec[i])}
DriftJson == {i \in C : ~JsonFormat(Rec[i])}
BadParse == {i \in P : ~ParseOk(Rec[i])}
First(S) == IF S = {} THEN 0 ELSE Min(S)
SumN(S) == LET RECURSIVE F(_) F(T) == IF T = {} THEN 0 ELSE LET x == CHOOSE y \in T : TRUE IN Rec[x].n + F(T \ {x}) IN F(S)
Summary == [lines |-> Len(Rec), values |-> Cardinality(C), texts |-> Cardinality({i \in C : Has(Rec[i], "text")}),
            jsons |-> Cardinality({i \in C : Has(Rec[i], "json")}), types |-> Cardinality({Rec[i].ty : i \in C}),
            badtext |-> Cardinality(BadText), firstbadtext |-> First(BadText),
            badjson |-> Cardinality(BadJson), firstbadjson |-> First(BadJson),
            drifttext |-> Cardinality(DriftText), firstdrifttext |-> First(DriftText),
            driftjson |-> Cardinality(DriftJson), firstdriftjson |-> First(DriftJson),
            distinctinputs |-> LET D == {i \in DOMAIN Rec : Rec[i].k = "pstat"} IN IF D = {} THEN 0 ELSE Rec[CHOOSE i \in D : TRUE].distinct,
            parsefamilies |-> Cardinality(P), parseinputs |-> SumN(P), badparse |-> Cardinality(BadParse), firstbadparse |-> First(BadParse)]
VARIABLE x
Spec == x = 0 /\ [][UNCHANGED x]_x
EmitSummary == PrintT(<<"SUMMARY", ToJson(Summary)>>)
=============================================================================
