------------------------------- MODULE SnapMC -------------------------------
(***************************************************************************)
(* Bounded exploration for C09 C10 C11:                                    *)
(*  build phase   every history of <= BuildLen calls on level 1;           *)
(*  at every state reached (checked as invariants on the state):           *)
(*     C09  every single and double structural fault on the package of     *)
(*          every listing is rejected unless the content is unchanged;     *)
(*     C10  restoring from every listing, with honest or lying aggregate   *)
(*          figures, gives the same book with derived aggregates;          *)
(*  fork          level 2 := restore of a snapshot of level 1 (any listing)*)
(*  both phase    <= BothLen calls applied to both levels in lock-step:    *)
(*     C11  the results agree unless one of the two listed deviations      *)
(*          holds at the fork.                                             *)
(***************************************************************************)
EXTENDS Snapshot
CONSTANTS Shapes, MatchQs, AmendQs, BuildLen, BothLen, Fuel

VARIABLES sh1, sh2, mode, flags, verdict, n
vars == <<sh1, sh2, mode, flags, verdict, n>>
NoStats(s) == [s EXCEPT !.st = EmptyStats, !.gen = 0]
View == <<NoStats(sh1), NoStats(sh2), mode, flags, verdict, n>>

Mk(s, i) == [id |-> i, kind |-> s.kind, vis |-> s.vis, hid |-> s.hid, thr |-> s.thr, amt |-> s.amt,
             auto |-> s.auto, ts |-> s.ts, side |-> s.side, px |-> Price, par |-> "GTC"]
Calls(s) ==
  {[op |-> "add", o |-> Mk(x, i)] : x \in Shapes, i \in Ids \ Live(s.qmap)}
  \cup {[op |-> "match", q |-> q, taker |-> 90] : q \in MatchQs}
  \cup {[op |-> "cancel", id |-> i] : i \in Ids}
  \cup {[op |-> "amend", id |-> i, q |-> q] : i \in Ids, q \in AmendQs}

NoFlags == [good |-> TRUE, sameOrder |-> TRUE, noStale |-> TRUE]
Init == sh1 = EmptyShared /\ sh2 = EmptyShared /\ mode = "build" /\ flags = NoFlags /\ verdict = {} /\ n = 0

Build == /\ mode = "build" /\ n < BuildLen
         /\ \E c \in Calls(sh1) : LET run == RunCall(sh1, c, Fuel) IN ~run.hang /\ sh1' = run.sh
         /\ n' = n + 1 /\ UNCHANGED <<sh2, mode, flags, verdict>>

Fork == /\ mode = "build"
        /\ \E ls \in Listings(sh1) :
             LET r == RestoreContent(TakeSnapshot(sh1, ls)) IN sh2' = r /\ flags' = ForkFlags(sh1, r)
        /\ mode' = "both" /\ n' = 0 /\ UNCHANGED <<sh1, verdict>>

Both == /\ mode = "both" /\ n < BothLen
        /\ \E c \in Calls(sh1) :
             LET a == RunCall(sh1, c, Fuel)
                 b == RunCall(sh2, c, Fuel)
             IN /\ ~a.hang /\ ~b.hang
                /\ sh1' = a.sh /\ sh2' = b.sh
                /\ verdict' = C11Verdict(flags, a.me.ret, b.me.ret, TRUE)
        /\ n' = n + 1 /\ UNCHANGED <<mode, flags>>

Next == Build \/ Fork \/ Both
Spec == Init /\ [][Next]_vars

\* C11 --------------------------------------------------------------------------------------
Inv_C11 == "C11" \notin verdict
Inv_C11raw == verdict = {}                     \* expected to FAIL: witnesses of D7 / D6
Inv_C11stale == "KF-C11-2" \notin verdict      \* expected to FAIL

\* C09 --------------------------------------------------------------------------------------
Packages == {MkPackage(TakeSnapshot(sh1, ls)) : ls \in Listings(sh1)}
Inv_C09 ==
  mode = "build" =>
    \A p \in Packages :
      /\ Validate(p)
      /\ \A x \in Faults(p) :
           LET p1 == ApplyFault(p, x) IN
           /\ (Validate(p1) => p1.content = p.content)
           /\ \A y \in Faults(p1) :
                LET p2 == ApplyFault(p1, y) IN Validate(p2) => p2.content = p.content
\* every single structural fault actually changes the package (so the line above is not vacuous)
Inv_C09nonvac == mode = "build" => \A p \in Packages : \A x \in Faults(p) : ApplyFault(p, x) # p /\ ~Validate(ApplyFault(p, x))

\* C10 --------------------------------------------------------------------------------------
Lies == {0, 1, 1000}
Inv_C10 ==
  mode = "build" =>
    \A ls \in Listings(sh1) : \A lv, lh, lc \in Lies :
      LET honest == TakeSnapshot(sh1, ls)
          lying  == [honest EXCEPT !.vis = lv, !.hid = lh, !.cnt = lc]
      IN /\ RestoredOk(sh1, honest.price, RestoreContent(lying), ls)
         /\ Validate(MkPackage(lying)) /\ MkPackage(lying).content = Refresh(honest)
\* the listing shows each resting order exactly once in non-decreasing timestamp order
Inv_C10list == \A ls \in Listings(sh1) : Len(ls) = Cardinality(Live(sh1.qmap)) /\ Range(ls) = {sh1.qmap[i] : i \in Live(sh1.qmap)} /\ Sorted(ls)
Inv_C10some == Listings(sh1) # {}

Sh(kd, v, h, thr, amt, au, ts) == [kind |-> kd, vis |-> v, hid |-> h, thr |-> thr, amt |-> amt, auto |-> au, ts |-> ts, side |-> "Buy"]
ShapesS == { Sh("Standard", 2, 0, 0, -1, FALSE, 1), Sh("Standard", 1, 0, 0, -1, FALSE, 2), Sh("Pegged", 3, 0, 0, -1, FALSE, 2),
             Sh("Iceberg", 1, 2, 0, -1, FALSE, 1), Sh("Reserve", 1, 2, 1, 1, TRUE, 2) }
Ids3 == 1..3
=============================================================================
