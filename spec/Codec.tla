-------------------------------- MODULE Codec --------------------------------
(***************************************************************************)
(* The library's text (Display/FromStr) and JSON (serde) formats, as       *)
(* functions from abstract values to ACTUAL STRINGS.  Numbers travel as    *)
(* opaque strings (their decimal rendering is not modelled; it is checked  *)
(* by the round trip itself on boundary values), everything else - field   *)
(* order, separators ':' ';' '=' ',' '[' ']', "GTD-n", "None", the         *)
(* externally tagged JSON enums, renamed variants - is exact.              *)
(*                                                                         *)
(* Values (all scalar fields are strings):                                 *)
(*  tif    [t |-> "GTC"|"IOC"|"FOK"|"DAY"|"GTD", n |-> expiry or ""]       *)
(*  order  [kind, id, price, vis, hid, side, ts, tif, thr, amt, auto,      *)
(*          trail, lastref, off, peg]   (fields a kind lacks are "")       *)
(*  update [kind, id, price, qty, side]                                    *)
(*  tx     [txid, taker, maker, price, qty, side, ts]                      *)
(*  mres   [id, rem, complete, txs, filled]                                *)
(*  summ   [price, vis, hid, cnt]      stats [added, ..., wait]            *)
(*  level  [price, vis, hid, cnt, orders]                                  *)
(*  pkg    [version, snapshot (a level), checksum]                         *)
(***************************************************************************)
EXTENDS Sequences, Integers, FiniteSets, TLC

RECURSIVE Join(_, _)
Join(ss, sep) == IF ss = <<>> THEN "" ELSE IF Len(ss) = 1 THEN ss[1] ELSE ss[1] \o sep \o Join(Tail(ss), sep)
Map(s, F(_)) == [k \in DOMAIN s |-> F(s[k])]
Q(s) == "\"" \o s \o "\""            \* JSON string (no escapes needed for the values used)

-----------------------------------------------------------------------------
(* text forms *)
TifText(t) == IF t.t = "GTD" THEN "GTD-" \o t.n ELSE t.t

OrderText(o) ==
  LET common == "id=" \o o.id \o ";price=" \o o.price
      tail   == ";side=" \o o.side \o ";timestamp=" \o o.ts \o ";time_in_force=" \o TifText(o.tif)
  IN CASE o.kind \in {"Standard", "PostOnly", "MarketToLimit"} ->
            o.kind \o ":" \o common \o ";quantity=" \o o.vis \o tail
       [] o.kind = "IcebergOrder" ->
            "IcebergOrder:" \o common \o ";visible_quantity=" \o o.vis \o ";hidden_quantity=" \o o.hid \o tail
       [] o.kind = "TrailingStop" ->
            "TrailingStop:" \o common \o ";quantity=" \o o.vis \o tail \o ";trail_amount=" \o o.trail
            \o ";last_reference_price=" \o o.lastref
       [] o.kind = "PeggedOrder" ->
            "PeggedOrder:" \o common \o ";quantity=" \o o.vis \o tail \o ";reference_price_offset=" \o o.off
            \o ";reference_price_type=" \o o.peg
       [] o.kind = "ReserveOrder" ->
            "ReserveOrder:" \o common \o ";visible_quantity=" \o o.vis \o ";hidden_quantity=" \o o.hid \o tail
            \o ";replenish_threshold=" \o o.thr \o ";replenish_amount=" \o o.amt \o ";auto_replenish=" \o o.auto

UpdateText(u) ==
  CASE u.kind = "UpdatePrice" -> "UpdatePrice:order_id=" \o u.id \o ";new_price=" \o u.price
    [] u.kind = "UpdateQuantity" -> "UpdateQuantity:order_id=" \o u.id \o ";new_quantity=" \o u.qty
    [] u.kind = "UpdatePriceAndQuantity" ->
         "UpdatePriceAndQuantity:order_id=" \o u.id \o ";new_price=" \o u.price \o ";new_quantity=" \o u.qty
    [] u.kind = "Cancel" -> "Cancel:order_id=" \o u.id
    [] u.kind = "Replace" ->
         "Replace:order_id=" \o u.id \o ";price=" \o u.price \o ";quantity=" \o u.qty \o ";side=" \o u.side

TxText(x) == "Transaction:transaction_id=" \o x.txid \o ";taker_order_id=" \o x.taker \o ";maker_order_id=" \o x.maker
             \o ";price=" \o x.price \o ";quantity=" \o x.qty \o ";taker_side=" \o x.side \o ";timestamp=" \o x.ts
TxListText(xs) == "Transactions:[" \o Join(Map(xs, TxText), ",") \o "]"
MresText(m) == "MatchResult:order_id=" \o m.id \o ";remaining_quantity=" \o m.rem \o ";is_complete=" \o m.complete
               \o ";transactions=" \o TxListText(m.txs) \o ";filled_order_ids=[" \o Join(m.filled, ",") \o "]"
SummText(s) == "PriceLevelSnapshot:price=" \o s.price \o ";visible_quantity=" \o s.vis \o ";hidden_quantity=" \o s.hid
               \o ";order_count=" \o s.cnt
StatsText(s) == "PriceLevelStatistics:orders_added=" \o s.added \o ";orders_removed=" \o s.removed \o ";orders_executed=" \o s.exec
                \o ";quantity_executed=" \o s.qty \o ";value_executed=" \o s.val \o ";last_execution_time=" \o s.last
                \o ";first_arrival_time=" \o s.first \o ";sum_waiting_time=" \o s.wait
LevelText(l) == "PriceLevel:price=" \o l.price \o ";visible_quantity=" \o l.vis \o ";hidden_quantity=" \o l.hid
                \o ";order_count=" \o l.cnt \o ";orders=[" \o Join(Map(l.orders, OrderText), ",") \o "]"
QueueText(os) == "OrderQueue:orders=[" \o Join(Map(os, OrderText), ",") \o "]"

-----------------------------------------------------------------------------
(* JSON forms (serde_json::to_string: no whitespace, declared field order) *)
TifJson(t) == IF t.t = "GTD" THEN "{\"GTD\":" \o t.n \o "}" ELSE Q(t.t)

OrderJson(o) ==
  LET head == "{\"id\":" \o Q(o.id) \o ",\"price\":" \o o.price
      tail == ",\"side\":" \o Q(o.side) \o ",\"timestamp\":" \o o.ts \o ",\"time_in_force\":" \o TifJson(o.tif)
      done == ",\"extra_fields\":null}}"
  IN CASE o.kind \in {"Standard", "PostOnly", "MarketToLimit"} ->
            "{" \o Q(o.kind) \o ":" \o head \o ",\"quantity\":" \o o.vis \o tail \o done
       [] o.kind = "IcebergOrder" ->
            "{\"IcebergOrder\":" \o head \o ",\"visible_quantity\":" \o o.vis \o ",\"hidden_quantity\":" \o o.hid \o tail \o done
       [] o.kind = "TrailingStop" ->
            "{\"TrailingStop\":" \o head \o ",\"quantity\":" \o o.vis \o tail \o ",\"trail_amount\":" \o o.trail
            \o ",\"last_reference_price\":" \o o.lastref \o done
       [] o.kind = "PeggedOrder" ->
            "{\"PeggedOrder\":" \o head \o ",\"quantity\":" \o o.vis \o tail \o ",\"reference_price_offset\":" \o o.off
            \o ",\"reference_price_type\":" \o Q(o.peg) \o done
       [] o.kind = "ReserveOrder" ->
            "{\"ReserveOrder\":" \o head \o ",\"visible_quantity\":" \o o.vis \o ",\"hidden_quantity\":" \o o.hid \o tail
            \o ",\"replenish_threshold\":" \o o.thr \o ",\"replenish_amount\":" \o (IF o.amt = "None" THEN "null" ELSE o.amt)
            \o ",\"auto_replenish\":" \o o.auto \o done

UpdateJson(u) ==
  CASE u.kind = "UpdatePrice" -> "{\"UpdatePrice\":{\"order_id\":" \o Q(u.id) \o ",\"new_price\":" \o u.price \o "}}"
    [] u.kind = "UpdateQuantity" -> "{\"UpdateQuantity\":{\"order_id\":" \o Q(u.id) \o ",\"new_quantity\":" \o u.qty \o "}}"
    [] u.kind = "UpdatePriceAndQuantity" ->
         "{\"UpdatePriceAndQuantity\":{\"order_id\":" \o Q(u.id) \o ",\"new_price\":" \o u.price \o ",\"new_quantity\":" \o u.qty \o "}}"
    [] u.kind = "Cancel" -> "{\"Cancel\":{\"order_id\":" \o Q(u.id) \o "}}"
    [] u.kind = "Replace" ->
         "{\"Replace\":{\"order_id\":" \o Q(u.id) \o ",\"price\":" \o u.price \o ",\"quantity\":" \o u.qty \o ",\"side\":" \o Q(u.side) \o "}}"

TxJson(x) == "{\"transaction_id\":" \o Q(x.txid) \o ",\"taker_order_id\":" \o Q(x.taker) \o ",\"maker_order_id\":" \o Q(x.maker)
             \o ",\"price\":" \o x.price \o ",\"quantity\":" \o x.qty \o ",\"taker_side\":" \o Q(x.side) \o ",\"timestamp\":" \o x.ts \o "}"
MresJson(m) == "{\"order_id\":" \o Q(m.id) \o ",\"transactions\":{\"transactions\":[" \o Join(Map(m.txs, TxJson), ",") \o "]}"
               \o ",\"remaining_quantity\":" \o m.rem \o ",\"is_complete\":" \o m.complete
               \o ",\"filled_order_ids\":[" \o Join(Map(m.filled, Q), ",") \o "]}"
StatsJson(s) == "{\"orders_added\":" \o s.added \o ",\"orders_removed\":" \o s.removed \o ",\"orders_executed\":" \o s.exec
                \o ",\"quantity_executed\":" \o s.qty \o ",\"value_executed\":" \o s.val \o ",\"last_execution_time\":" \o s.last
                \o ",\"first_arrival_time\":" \o s.first \o ",\"sum_waiting_time\":" \o s.wait \o "}"
LevelJson(l) == "{\"price\":" \o l.price \o ",\"visible_quantity\":" \o l.vis \o ",\"hidden_quantity\":" \o l.hid
                \o ",\"order_count\":" \o l.cnt \o ",\"orders\":[" \o Join(Map(l.orders, OrderJson), ",") \o "]}"
PkgJson(p) == "{\"version\":" \o p.version \o ",\"snapshot\":" \o LevelJson(p.snapshot) \o ",\"checksum\":" \o Q(p.checksum) \o "}"

-----------------------------------------------------------------------------
(* dispatch by type tag *)
EncText(ty, v) ==
  CASE ty = "side" -> v [] ty = "tif" -> TifText(v) [] ty = "peg" -> v [] ty = "id" -> v
    [] ty = "order" -> OrderText(v) [] ty = "update" -> UpdateText(v) [] ty = "tx" -> TxText(v)
    [] ty = "txlist" -> TxListText(v) [] ty = "mres" -> MresText(v) [] ty = "summ" -> SummText(v)
    [] ty = "stats" -> StatsText(v) [] ty = "level" -> LevelText(v) [] ty = "queue" -> QueueText(v)
    [] ty = "status" -> v
HasText(ty) == ty \in {"side", "tif", "peg", "id", "order", "update", "tx", "txlist", "mres", "summ", "stats", "level", "queue", "status"}

EncJson(ty, v) ==
  CASE ty = "side" -> Q(v) [] ty = "tif" -> TifJson(v) [] ty = "peg" -> Q(v) [] ty = "id" -> Q(v)
    [] ty = "order" -> OrderJson(v) [] ty = "update" -> UpdateJson(v) [] ty = "tx" -> TxJson(v)
    [] ty = "mres" -> MresJson(v) [] ty = "stats" -> StatsJson(v) [] ty = "level" -> LevelJson(v)
    [] ty \in {"snap", "snapseq"} -> LevelJson(v) [] ty \in {"pkg", "pkgseq"} -> PkgJson(v) [] ty = "status" -> Q(v)
HasJson(ty) == ty \in {"side", "tif", "peg", "id", "order", "update", "tx", "mres", "stats", "level", "snap", "pkg", "snapseq", "pkgseq"}
\* level-like values whose order listing may come back in another order (ties in timestamps / map order)
SetLike(ty) == ty \in {"level", "queue"}

(* equality after the round trip, as C16/C17 state it *)
SameValue(ty, v, b) ==
  CASE ty = "level" -> /\ b.price = v.price /\ b.vis = v.vis /\ b.hid = v.hid /\ b.cnt = v.cnt
                       /\ Len(b.orders) = Len(v.orders)
                       /\ {b.orders[k] : k \in DOMAIN b.orders} = {v.orders[k] : k \in DOMAIN v.orders}
    [] ty = "queue" -> Len(b) = Len(v) /\ {b[k] : k \in DOMAIN b} = {v[k] : k \in DOMAIN v}
    [] ty = "summ"  -> b.price = v.price /\ b.vis = v.vis /\ b.hid = v.hid /\ b.cnt = v.cnt
    [] OTHER -> b = v
=============================================================================
