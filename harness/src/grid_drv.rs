//! C05: calls the real `OrderType::match_against` (and with_reduced_quantity / refresh_iceberg)
//! on an exhaustive small grid and on 64-bit boundary inputs; one ND-JSON line per call.

use crate::model::*;
use pricelevel::*;
use serde_json::{json, Value};

fn big(v: u64) -> Value {
    json!(v)
}

/// order rendered with exact 64-bit numbers (for the Apalache-validated boundary cases)
fn order_json_big(o: &OrderType<()>) -> Value {
    let mut j = order_json(o);
    j["vis"] = big(o.visible_quantity());
    j["hid"] = big(o.hidden_quantity());
    if let OrderType::ReserveOrder { replenish_threshold, replenish_amount, .. } = o {
        j["thr"] = big(*replenish_threshold);
        j["amt"] = match replenish_amount {
            Some(a) => big(*a),
            None => json!(-1),
        };
    }
    j
}

fn mk(kind: &str, vis: u64, hid: u64, thr: u64, amt: i128, auto: bool) -> OrderType<()> {
    let id = OrderId::from_u64(1);
    let (price, side, timestamp, time_in_force) = (100, Side::Sell, 7, TimeInForce::Gtc);
    match kind {
        "Iceberg" => OrderType::IcebergOrder { id, price, visible_quantity: vis, hidden_quantity: hid, side, timestamp, time_in_force, extra_fields: () },
        "PostOnly" => OrderType::PostOnly { id, price, quantity: vis, side, timestamp, time_in_force, extra_fields: () },
        "TrailingStop" => OrderType::TrailingStop { id, price, quantity: vis, side, timestamp, time_in_force, trail_amount: 5, last_reference_price: 100, extra_fields: () },
        "Pegged" => OrderType::PeggedOrder { id, price, quantity: vis, side, timestamp, time_in_force, reference_price_offset: -3, reference_price_type: PegReferenceType::BestBid, extra_fields: () },
        "MarketToLimit" => OrderType::MarketToLimit { id, price, quantity: vis, side, timestamp, time_in_force, extra_fields: () },
        "Reserve" => OrderType::ReserveOrder {
            id,
            price,
            visible_quantity: vis,
            hidden_quantity: hid,
            side,
            timestamp,
            time_in_force,
            replenish_threshold: thr,
            replenish_amount: if amt < 0 { None } else { Some(amt as u64) },
            auto_replenish: auto,
            extra_fields: (),
        },
        _ => OrderType::Standard { id, price, quantity: vis, side, timestamp, time_in_force, extra_fields: () },
    }
}

const PLAIN: [&str; 5] = ["Standard", "PostOnly", "TrailingStop", "Pegged", "MarketToLimit"];

fn ma_line(o: &OrderType<()>, q: u64, bigmode: bool) -> Value {
    let oj = |x: &OrderType<()>| if bigmode { order_json_big(x) } else { order_json(x) };
    let r = std::panic::catch_unwind(|| o.match_against(q));
    match r {
        Ok((c, upd, hr, rem)) => json!({"k": if bigmode { "mabig" } else { "ma" }, "o": oj(o), "q": q,
            "r": {"c": c, "upd": upd.as_ref().map(oj).unwrap_or_else(no_order), "hr": hr, "rem": rem}}),
        Err(_) => json!({"k": "panic", "o": oj(o), "q": q}),
    }
}

pub fn run(sc: &Value) -> Vec<String> {
    let mut out = vec![];
    let u = |k: &str, d: u64| sc[k].as_u64().unwrap_or(d);
    let (maxvis, maxhid, maxthr, maxq) = (u("maxvis", 4), u("maxhid", 4), u("maxthr", 3), u("maxq", 6));
    let amts: Vec<i128> = sc["amts"].as_array().map(|a| a.iter().map(|x| x.as_i64().unwrap_or(-1) as i128).collect()).unwrap_or_else(|| vec![-1, 0, 1, 2, 5]);
    let bighids: Vec<u64> = sc["bighids"].as_array().map(|a| a.iter().map(|x| x.as_u64().unwrap_or(0)).collect()).unwrap_or_else(|| vec![79, 80, 81, 200]);
    let mut qs: Vec<u64> = (0..=maxq).collect();
    qs.extend([90, 300]);
    let mut orders: Vec<OrderType<()>> = vec![];
    for kd in PLAIN {
        for v in 0..=maxvis {
            orders.push(mk(kd, v, 0, 0, -1, false));
        }
    }
    for v in 0..=maxvis {
        for h in 0..=maxhid {
            orders.push(mk("Iceberg", v, h, 0, -1, false));
            for thr in 0..=maxthr {
                for &amt in &amts {
                    for au in [false, true] {
                        orders.push(mk("Reserve", v, h, thr, amt, au));
                    }
                }
            }
        }
    }
    for &h in &bighids {
        for v in 0..=2 {
            for thr in 0..=1 {
                for au in [false, true] {
                    orders.push(mk("Reserve", v, h, thr, -1, au));
                }
            }
        }
        for v in [1, 100] {
            orders.push(mk("Iceberg", v, h, 0, -1, false));
        }
    }
    for o in &orders {
        for &q in &qs {
            out.push(ma_line(o, q, false).to_string());
        }
        // the two helper rules of the same file
        for n in [0u64, 1, 3] {
            let w = o.with_reduced_quantity(n);
            out.push(json!({"k": "wr", "o": order_json(o), "n": n, "r": order_json(&w)}).to_string());
            let (ro, used) = o.refresh_iceberg(n);
            out.push(json!({"k": "ri", "o": order_json(o), "n": n, "r": {"o": order_json(&ro), "used": used}}).to_string());
        }
    }
    // 64-bit boundary inputs with displayed + hidden <= u64::MAX
    let m = u64::MAX;
    let b: Vec<u64> = vec![0, 1, 2, 79, 80, 81, 1 << 31, 1 << 32, (1 << 53) + 1, (1 << 63) - 1, 1 << 63, m - 2, m - 1, m];
    let nbig = sc["nbig"].as_u64().unwrap_or(300) as usize;
    let mut rng = crate::sched::Rng(sc["seed"].as_u64().unwrap_or(1));
    let kinds = ["Standard", "PostOnly", "TrailingStop", "Pegged", "MarketToLimit", "Iceberg", "Reserve"];
    let mut n = 0;
    while n < nbig {
        let kd = kinds[rng.below(kinds.len())];
        let vis = b[rng.below(b.len())];
        let hid = if kd == "Iceberg" || kd == "Reserve" { b[rng.below(b.len())] } else { 0 };
        if vis.checked_add(hid).is_none() {
            continue;
        }
        let thr = b[rng.below(b.len())];
        let amt: i128 = if rng.chance(1, 4) { -1 } else { b[rng.below(b.len())] as i128 };
        let o = mk(kd, vis, hid, if kd == "Reserve" { thr } else { 0 }, if kd == "Reserve" { amt } else { -1 }, rng.chance(1, 2));
        // incoming quantities around the displayed quantity and at the extremes
        let q = match rng.below(6) {
            0 => vis,
            1 => vis.saturating_sub(1),
            2 => vis.saturating_add(1),
            3 => m,
            4 => 1,
            _ => b[rng.below(b.len())],
        };
        out.push(ma_line(&o, q, true).to_string());
        n += 1;
    }
    out
}
