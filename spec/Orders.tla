------------------------------- MODULE Orders -------------------------------
(***************************************************************************)
(* Resting orders of one price level and the pure per-order rules of       *)
(* src/orders/order_type.rs, transcribed arm by arm:                       *)
(*   Visible / Hidden            order_type.rs:194-221                     *)
(*   WithReducedQuantity(o, n)   order_type.rs:278-339                     *)
(*   MatchAgainst(o, q)          order_type.rs:417-649                     *)
(*   RefreshIceberg(o, n)        order_type.rs:342-406                     *)
(*                                                                         *)
(* An order is a record                                                    *)
(*   [id, kind, vis, hid, thr, amt, auto, ts, side, px, par]               *)
(* kind \in Kinds; vis/hid displayed and hidden quantity (hid = 0 for the  *)
(* five kinds that have none); thr/amt/auto the reserve parameters (amt =  *)
(* -1 encodes "replenish_amount: None"); ts the user supplied timestamp;   *)
(* px the order's own price; par an opaque value standing for every other  *)
(* identity field (time-in-force, trail amount, peg offset/reference ...). *)
(* Integers are unbounded here: a u64 that wraps in the implementation     *)
(* shows up as a negative number in the model.                             *)
(***************************************************************************)
EXTENDS Integers, Sequences, FiniteSets

CONSTANT DevPlainNoReduce  \* TRUE = defect D1 (pinned tree before the fix): the
                           \* fall-through arm hands back the order unreduced for
                           \* TrailingStop / Pegged / MarketToLimit

Kinds       == {"Standard", "Iceberg", "PostOnly", "TrailingStop", "Pegged", "MarketToLimit", "Reserve"}
PlainKinds  == {"Standard", "PostOnly", "TrailingStop", "Pegged", "MarketToLimit"}
NoReduceKinds == {"TrailingStop", "Pegged", "MarketToLimit"}   \* with_reduced_quantity is a no-op
HiddenKinds == {"Iceberg", "Reserve"}
Sides       == {"Buy", "Sell"}
Opposite(s) == IF s = "Buy" THEN "Sell" ELSE "Buy"

DefaultReplenish == 80          \* DEFAULT_RESERVE_REPLENISH_AMOUNT, order_type.rs:12

NoOrder == [kind |-> "none"]
IsOrder(o) == o.kind # "none"

Min2(a, b) == IF a <= b THEN a ELSE b
Max2(a, b) == IF a >= b THEN a ELSE b

Visible(o) == o.vis
Hidden(o)  == IF o.kind \in HiddenKinds THEN o.hid ELSE 0
Total(o)   == Visible(o) + Hidden(o)

(* with_reduced_quantity: rewrites the displayed quantity of Standard, PostOnly  *)
(* and Iceberg orders; every other kind is returned unchanged (pinned by three   *)
(* existing unit tests).                                                          *)
WithReducedQuantity(o, n) ==
  IF o.kind \in {"Standard", "PostOnly", "Iceberg"} THEN [o EXCEPT !.vis = n] ELSE o

(* refresh_iceberg(refresh_amount) -> (order, used_hidden) *)
RefreshIceberg(o, n) ==
  IF o.kind \in HiddenKinds
  THEN LET newHid == IF o.hid >= n THEN o.hid - n ELSE 0     \* saturating_sub
       IN  [o |-> [o EXCEPT !.vis = n, !.hid = newHid], used |-> o.hid - newHid]
  ELSE [o |-> o, used |-> 0]

(* match_against(incoming) -> (consumed, updated order or none, hidden_reduced, remaining) *)
MR(c, upd, hr, rem) == [c |-> c, upd |-> upd, hr |-> hr, rem |-> rem]

MatchStandard(o, q) ==
  IF o.vis <= q THEN MR(o.vis, NoOrder, 0, q - o.vis)
                ELSE MR(q, [o EXCEPT !.vis = o.vis - q], 0, 0)

MatchIceberg(o, q) ==
  IF o.vis <= q
  THEN IF o.hid > 0
       THEN LET refresh == Min2(o.hid, o.vis)
            IN  MR(o.vis, [o EXCEPT !.vis = refresh, !.hid = o.hid - refresh], refresh, q - o.vis)
       ELSE MR(o.vis, NoOrder, 0, q - o.vis)
  ELSE MR(q, [o EXCEPT !.vis = o.vis - q], 0, 0)

MatchReserve(o, q) ==
  LET safeThr == IF o.auto /\ o.thr = 0 THEN 1 ELSE o.thr
      repl    == Min2(IF o.amt = -1 THEN DefaultReplenish ELSE o.amt, o.hid)
  IN  IF o.vis <= q
      THEN IF o.hid > 0 /\ o.auto
           THEN MR(o.vis, [o EXCEPT !.vis = repl, !.hid = o.hid - repl], repl, q - o.vis)
           ELSE MR(o.vis, NoOrder, 0, q - o.vis)
      ELSE LET nv == o.vis - q
           IN  IF nv < safeThr /\ o.hid > 0 /\ o.auto
               THEN MR(q, [o EXCEPT !.vis = nv + repl, !.hid = o.hid - repl], repl, 0)
               ELSE MR(q, [o EXCEPT !.vis = nv], 0, 0)

(* fall-through arm: "standard matching logic" for the remaining kinds.            *)
(* On the pinned tree the partial branch calls with_reduced_quantity, which does   *)
(* nothing for three kinds (D1); the repaired tree builds the reduced order.       *)
MatchPlain(o, q) ==
  IF o.vis <= q THEN MR(o.vis, NoOrder, 0, q - o.vis)
  ELSE MR(q,
          IF DevPlainNoReduce THEN WithReducedQuantity(o, o.vis - q)
                              ELSE [o EXCEPT !.vis = o.vis - q],
          0, 0)

MatchAgainst(o, q) ==
  CASE o.kind = "Standard" -> MatchStandard(o, q)
    [] o.kind = "Iceberg"  -> MatchIceberg(o, q)
    [] o.kind = "Reserve"  -> MatchReserve(o, q)
    [] OTHER               -> MatchPlain(o, q)

(***************************************************************************)
(* The documented rule (property C05), stated independently of the arms    *)
(* above, as a predicate on (order, incoming, result).                     *)
(***************************************************************************)
SameIdentity(a, b) ==
  /\ a.id = b.id /\ a.kind = b.kind /\ a.ts = b.ts /\ a.side = b.side
  /\ a.px = b.px /\ a.par = b.par /\ a.thr = b.thr /\ a.amt = b.amt /\ a.auto = b.auto

RuleC05(o, q, r) ==
  LET exhausted == o.vis <= q
      nv        == o.vis - r.c
      thr1      == IF o.thr = 0 THEN 1 ELSE o.thr                 \* "0 counts as 1"
      amount    == Min2(IF o.amt = -1 THEN 80 ELSE o.amt, Hidden(o))
  IN
  /\ r.c = Min2(q, o.vis)                                          \* consumes min(incoming, displayed)
  /\ r.rem = q - r.c
  /\ IsOrder(r.upd) =>
        /\ SameIdentity(o, r.upd)
        /\ Total(r.upd) = Total(o) - r.c                          \* total conserved
        /\ r.hr = Hidden(o) - Hidden(r.upd)                       \* hidden_reduced = what moved
        /\ r.hr >= 0
  /\ ~IsOrder(r.upd) => r.hr = 0
  /\ CASE o.kind = "Iceberg" ->
            IF exhausted
            THEN IF o.hid = 0 THEN ~IsOrder(r.upd)                \* leaves when nothing is hidden
                 ELSE /\ IsOrder(r.upd)
                      /\ r.upd.vis <= o.vis                       \* tranche no larger than the exhausted one
                      /\ r.upd.vis = r.hr                         \* taken from hidden quantity
                      \* (the pinned code shows exactly Min2(o.hid, o.vis): that is MatchAgainst, the model of
                      \*  the code; the property only bounds the tranche)
            ELSE IsOrder(r.upd) /\ r.upd.vis = nv /\ r.hr = 0
       [] o.kind = "Reserve" ->
            LET wants == (exhausted \/ nv < thr1) /\ o.auto /\ o.hid > 0
            IN  IF wants
                THEN /\ IsOrder(r.upd) /\ r.hr = amount /\ r.upd.vis = nv + amount
                ELSE IF exhausted THEN ~IsOrder(r.upd)            \* leaves once its display is exhausted
                     ELSE IsOrder(r.upd) /\ r.upd.vis = nv /\ r.hr = 0
       [] OTHER ->                                                \* every other type just shrinks
            IF exhausted THEN ~IsOrder(r.upd)
            ELSE IsOrder(r.upd) /\ r.upd.vis = nv /\ r.hr = 0

=============================================================================
