"""C05: the per-order matching rule. TLC on the grid, Apalache over all integers, and the real
match_against validated against the specification on the grid (TLC) and on 64-bit inputs (Apalache)."""
import os, json, subprocess, time, shutil
from common import *
import scen


def apalache(root, inv, work, extra=(), timeout=900, init="Init", nxt="Next"):
    import uuid as _uuid
    out = work.path("apa-" + _uuid.uuid4().hex[:12])     # unique also across parallel invocations
    cmd = ["timeout", str(timeout), "apalache-mc", "check", "--cinit=ConstInit", "--init=" + init, "--next=" + nxt, "--inv=" + inv, "--length=0", "--out-dir=" + out] + list(extra) + [root]
    t0 = time.time()
    p = subprocess.run(cmd, cwd=work.dir, stdout=subprocess.PIPE, stderr=subprocess.STDOUT, text=True)
    shutil.rmtree(out, ignore_errors=True)
    o = p.stdout
    if "The outcome is: NoError" in o:
        return True, time.time() - t0, o
    if "The outcome is: Error" in o:
        return False, time.time() - t0, o
    raise ToolError("apalache did not finish (%s): %s" % (inv, o[-1500:]))


def tla_ord(o):
    return '[kind |-> "%s", vis |-> %d, hid |-> %d, thr |-> %d, amt |-> %d, auto |-> %s]' % (o["kind"], o["vis"], o["hid"], o["thr"], o["amt"], "TRUE" if o["auto"] else "FALSE")


def tla_res(r):
    u = r["upd"]
    some = u.get("kind") != "none"
    return "[c |-> %d, some |-> %s, uvis |-> %d, uhid |-> %d, hr |-> %d, rem |-> %d]" % (
        r["c"], "TRUE" if some else "FALSE", u["vis"] if some else 0, u["hid"] if some else 0, r["hr"], r["rem"])


IDENT = ("id", "kind", "ts", "side", "px", "par", "thr", "amt", "auto")


def cases_module(name, cases):
    body = ",\n  ".join("[o |-> %s, q |-> %d, r |-> %s]" % (tla_ord(c["o"]), c["q"], tla_res(c["r"])) for c in cases)
    return ("---- MODULE %s ----\nEXTENDS ApaMatchMC\n\\* @type: Seq({o: $ord, q: Int, r: $res});\nCases == <<\n  %s\n>>\n"
            "CasesOk == \\A i \\in DOMAIN Cases : AMatch(Cases[i].o, Cases[i].q) = Cases[i].r\n"
            "CasesRule == \\A i \\in DOMAIN Cases : ARule(Cases[i].o, Cases[i].q, Cases[i].r)\n====\n" % (name, body))


def check_cases(cases, work, tag, inv="CasesOk"):
    """CasesOk: the recorded results are the model's (AMatch) - conformance; since Apalache proves ARule(AMatch)
    for all inputs, conformance implies the rule.  CasesRule: the recorded results satisfy the documented rule."""
    name = "GenApaCases_%d_%s" % (os.getpid(), tag)
    path = os.path.join(SPEC, name + ".tla")
    open(path, "w").write(cases_module(name, cases))
    try:
        ok, wall, out = apalache(path, inv, work)
    finally:
        os.remove(path)
    return ok, wall


def locate(cases, work, inv="CasesOk"):
    """bisect to one failing case"""
    lo, hi = 0, len(cases)
    n = 0
    while hi - lo > 1:
        mid = (lo + hi) // 2
        n += 1
        ok, _ = check_cases(cases[lo:mid], work, "b%d" % n, inv)
        if not ok:
            hi = mid
        else:
            lo = mid
    return cases[lo]


def check_c05(prop, tier):
    res = Result(prop, tier, "model_checking")
    work = Work(prop)
    try:
        res.add(build_s=round(build_harness(), 1))
        grid_cfg = os.path.join(SPEC, "mc", "MCGrid.cfg")
        # 1. the rule holds for the specification on the grid; the unrepaired instance violates it
        r = require_ok(tlc("MCGrid", grid_cfg, work, workers=8), "model check of C05 on the grid")
        res.add(states=r["distinct"], transitions=r["generated"], checker_cmd="tlc MCGrid INVARIANT Inv_C05 Inv_Shape; apalache-mc ApaMatchMC --inv=Inv --length=0")
        cfgw = write_cfg(work, "gridw", "MCGrid", subst={"DevPlainNoReduce": "TRUE"})
        rw = tlc("MCGrid", cfgw, work, workers=8)
        if "Inv_C05" not in rw["violated"]:
            raise ToolError("regression witness: the instance with the unreduced partial fill (D1) must violate Inv_C05")
        # 2. all integers (Apalache), tied to Orders.tla by ApaEquiv (TLC)
        require_ok(tlc("ApaEquiv", os.path.join(SPEC, "mc", "ApaEquiv.cfg"), work, workers=8), "equivalence of ApaMatch and Orders on the grid")
        root = os.path.join(SPEC, "ApaMatchMC.tla")
        ok, w1, out = apalache(root, "Inv", work)
        if not ok:
            raise ToolError("Apalache refutes RuleC05 on the specification itself:\n" + out[-1500:])
        ok2, w2, _ = apalache(root, "InvRange", work)
        if not ok2:
            raise ToolError("Apalache: result of the rule leaves the u64 range")
        neg, w3, _ = apalache(root, "InvNeg", work)
        if neg:
            raise ToolError("non-vacuity: Apalache must refute the rule without 'threshold 0 counts as 1'")
        res.add(apalache_symbolic_queries=3, apalache_wall_s=round(w1 + w2 + w3, 1))
        # 3. the real match_against on the grid and on 64-bit inputs
        nbig = 160 if tier == "quick" else 3000
        h = run_harness("grid", [{"nbig": nbig, "seed": seed()}], work, "grid")
        small, bigs = work.path("small.ndjson"), []
        with open(small, "w") as f:
            for line in open(h["trace"]):
                if '"k":"mabig"' in line:
                    bigs.append(json.loads(line))
                else:
                    f.write(line)
        s = tv(small, "TraceGrid", "TraceGrid", work)
        res.add(traces_validated_against_impl=1, grid_cases=s["ma"], helper_cases=s["wr"] + s["ri"], grid_covered=s["covered"])
        drift = None
        if s["panics"] or s["badma"]:
            bad = read_trace_lines(small)[s["firstbad"] - 1]
            res.violation("match_against breaks the documented rule on grid case (line %d; %d cases)" % (s["firstbad"], s["badma"] + s["panics"]), {"driver": "grid", "case": bad})
        elif s["driftma"] or s["badwr"] or s["badri"]:
            dl = read_trace_lines(small)[s["firstdrift"] - 1]
            drift = "%d grid results differ from the transcription of the pinned code although the documented rule holds (%d helper cases differ), first: %s" % (
                s["driftma"], s["badwr"] + s["badri"], json.dumps(dl)[:300])
        if not s["covered"] or s["ma"] != r["distinct"]:
            raise ToolError("the recorded grid is not the model-checked grid (%d vs %d)" % (s["ma"], r["distinct"]))
        # 64-bit cases: identity fields by direct comparison, quantities by Apalache against ApaMatch
        for c in bigs:
            u = c["r"]["upd"]
            if u.get("kind") != "none" and any(u[k] != c["o"][k] for k in IDENT):
                res.violation("identity field changed by match_against", {"driver": "grid", "case": c})
        from concurrent.futures import ThreadPoolExecutor
        chunk = 40
        parts = [bigs[i:i + chunk] for i in range(0, len(bigs), chunk)]
        with ThreadPoolExecutor(max_workers=5) as ex:
            outcomes = list(ex.map(lambda ip: check_cases(ip[1], work, "c%d" % ip[0]), enumerate(parts)))
        nchecked = len(bigs)
        for part, (ok, w) in zip(parts, outcomes):
            if not ok:
                # not the model's result: does it break the documented rule, or only differ from the pinned code?
                okr, _ = check_cases(part, work, "rule", "CasesRule")
                if not okr:
                    bad = locate(part, work, "CasesRule")
                    res.violation("match_against breaks the documented rule on a 64-bit input", {"driver": "grid", "case": bad})
                    break
                drift = drift or "64-bit results differ from the transcription of the pinned code although the documented rule holds: %s" % json.dumps(locate(part, work))[:300]
        res.add(boundary_cases_validated_by_apalache=nchecked)
        if drift:
            res.downgrade(drift, s["ma"] + nchecked, s["ma"] + nchecked, "every grid case and every recorded 64-bit case of the real match_against judged by the documented rule (RuleC05 / ARule)")
        res.sample({"grid_case": json.loads(open(small).readline())})
        if bigs:
            res.sample({"boundary_case": bigs[0]})
        res.assumptions += ["displayed + hidden <= u64::MAX per order (precondition of the property)", "Apalache/z3 for the integer theory; ApaMatch tied to Orders.tla by TLC on the grid (ApaEquiv)"]
        return res.finish()
    finally:
        work.cleanup()


def aggregate_algebra(res, work):
    """integer core of C01 / C12 over all 64-bit quantities (spec/ApaAgg.tla)"""
    root = os.path.join(SPEC, "ApaAggMC.tla")
    ok, w1, out = apalache(root, "InvAgg", work, init="InitAgg", nxt="NextAgg")
    if not ok:
        raise ToolError("Apalache refutes the aggregate arithmetic of the specification:\n" + out[-1500:])
    neg, w2, _ = apalache(root, "InvAggNeg", work, init="InitAgg", nxt="NextAgg")
    if neg:
        raise ToolError("non-vacuity: Apalache must refute the variant that forgets the leftover hidden quantity")
    res.add(apalache_aggregate_algebra="holds for all non-negative integers with level total <= u64::MAX", apalache_wall_s=round(w1 + w2, 1))
