------------------------------ MODULE ApaEquiv ------------------------------
(***************************************************************************)
(* Ties the typed integer copy ApaMatch.tla to Orders.tla: on the whole    *)
(* TLC grid, AMatch agrees with MatchAgainst, and ARule agrees with        *)
(* RuleC05 both on the correct result and on perturbed (wrong) results, so *)
(* the copy is neither different nor weaker.                               *)
(***************************************************************************)
EXTENDS MCGrid
A == INSTANCE ApaMatch WITH o <- o, q <- q, U64MAX <- 1000000

ConvO(x) == [kind |-> x.kind, vis |-> x.vis, hid |-> x.hid, thr |-> x.thr, amt |-> x.amt, auto |-> x.auto]
ConvR(r) == [c |-> r.c, some |-> IsOrder(r.upd), uvis |-> IF IsOrder(r.upd) THEN r.upd.vis ELSE 0,
             uhid |-> IF IsOrder(r.upd) THEN Hidden(r.upd) ELSE 0, hr |-> r.hr, rem |-> r.rem]

Perturb(r) ==
  {r, [r EXCEPT !.c = @ + 1], [r EXCEPT !.hr = @ + 1], [r EXCEPT !.rem = @ + 1], [r EXCEPT !.upd = NoOrder]}
  \cup (IF IsOrder(r.upd) THEN {[r EXCEPT !.upd.vis = @ + 1], [r EXCEPT !.upd.vis = 0],
                                [r EXCEPT !.upd.hid = IF o.kind \in HiddenKinds THEN @ + 1 ELSE @]}
        ELSE {[r EXCEPT !.upd = o]})

Inv_SameMatch == A!AMatch(ConvO(o), q) = ConvR(MatchAgainst(o, q))
Inv_SameRule  == \A r \in Perturb(MatchAgainst(o, q)) :
                   \* identity fields are outside the integer copy: compare on results that keep them
                   (IsOrder(r.upd) => SameIdentity(o, r.upd)) =>
                     (RuleC05(o, q, r) <=> A!ARule(ConvO(o), q, ConvR(r)))
=============================================================================
