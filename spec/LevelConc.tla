------------------------------ MODULE LevelConc ------------------------------
(***************************************************************************)
(* Concurrent specification of one price level: threads run fixed programs *)
(* of calls; every step is one shared operation of one thread (Level!Step).*)
(* After all threads have returned, an extra thread issues a draining      *)
(* match (property C08).  Several scenarios (initial book + programs) are  *)
(* explored in one TLC run: the scenario is chosen in Init.                *)
(*                                                                         *)
(* `hist` records the schedule (thread of every step).  It is hidden from  *)
(* the state fingerprint by VIEW and printed at terminal states, so that   *)
(* every distinct terminal state of the model yields one schedule that the *)
(* harness replays in the real code.                                       *)
(***************************************************************************)
EXTENDS Level, Json

CONSTANTS Scenarios,      \* sequence of [init |-> seq of orders, progs |-> seq (one per thread) of seq of calls]
          EmitReplays,    \* TRUE: print one REPLAY line per distinct terminal state
          TrackHist       \* FALSE: do not record the schedule (needed for liveness checking: finite graph)

VARIABLES sc,             \* index of the scenario
          sh, th, k,      \* shared state, thread-local states, next call index per thread
          gh,             \* ghost (event driven)
          phase,          \* "run" -> "drain" -> "done"
          hist            \* schedule so far

vars == <<sc, sh, th, k, gh, phase, hist>>
View == <<sc, sh, th, k, gh, phase>>

NThreads(s) == Len(Scenarios[s].progs)
Drainer(s)  == NThreads(s) + 1
ThreadsOf(s) == 1..Drainer(s)
Prog(s, t)  == IF t = Drainer(s) THEN <<>> ELSE Scenarios[s].progs[t]

(* Start the thread's next call (if any) right away; calls without a shared operation
   return at once and the following call is started. *)
RECURSIVE StartNext(_, _, _, _, _, _)
StartNext(s, t, me, kk, g, qm) ==
  IF me.pc # "idle" \/ kk > Len(Prog(s, t)) THEN [me |-> me, k |-> kk, gh |-> g]
  ELSE LET c  == Prog(s, t)[kk]
           m  == Begin(me, c)
           g1 == GhostCall(g, t, c, qm)
       IN IF m.pc = "idle" THEN StartNext(s, t, m, kk + 1, GhostRet(g1, t, m.ret), qm)
                           ELSE [me |-> m, k |-> kk + 1, gh |-> g1]

RECURSIVE StartAll(_, _, _, _, _)
StartAll(s, ts, thf, kf, g) ==
  IF ts = {} THEN [th |-> thf, k |-> kf, gh |-> g]
  ELSE LET t == CHOOSE x \in ts : TRUE
           n == StartNext(s, t, thf[t], kf[t], g, SharedFrom(Scenarios[s].init).qmap)
       IN StartAll(s, ts \ {t}, [thf EXCEPT ![t] = n.me], [kf EXCEPT ![t] = n.k], n.gh)

Init ==
  /\ sc \in DOMAIN Scenarios
  /\ sh = SharedFrom(Scenarios[sc].init)
  /\ LET a == StartAll(sc, 1..NThreads(sc), [t \in ThreadsOf(sc) |-> IdleLocal],
                       [t \in ThreadsOf(sc) |-> 1], GhostInit(ThreadsOf(sc), sh.qmap))
     IN th = a.th /\ k = a.k /\ gh = a.gh
  /\ phase = "run"
  /\ hist = <<>>

StepT(t) ==
  /\ th[t].pc # "idle"
  /\ LET n  == Step(sh, th[t])
         g1 == GhostOp(gh, t, n.ev)
         g2 == IF n.me.pc = "idle" THEN GhostRet(g1, t, n.me.ret) ELSE g1
         a  == StartNext(sc, t, n.me, k[t], g2, n.sh.qmap)
     IN /\ sh' = n.sh
        /\ th' = [th EXCEPT ![t] = a.me]
        /\ k'  = [k EXCEPT ![t] = a.k]
        /\ gh' = a.gh
  /\ hist' = IF TrackHist THEN Append(hist, t) ELSE hist
  /\ UNCHANGED <<sc>>

AllIdle == \A t \in ThreadsOf(sc) : th[t].pc = "idle"

Run == phase = "run" /\ \E t \in 1..NThreads(sc) : StepT(t) /\ UNCHANGED phase

DrainCall == [op |-> "match", q |-> gh.everSup + 1, taker |-> 99]

StartDrain ==
  /\ phase = "run" /\ AllIdle
  /\ LET d == Drainer(sc)
         m == Begin(IdleLocal, DrainCall)
     IN /\ th' = [th EXCEPT ![d] = m]
        /\ gh' = GhostCall(gh, d, DrainCall, sh.qmap)
  /\ phase' = "drain"
  /\ UNCHANGED <<sc, sh, k, hist>>

Drain ==
  /\ phase = "drain"
  /\ IF th[Drainer(sc)].pc = "idle"
     THEN phase' = "done" /\ UNCHANGED <<sc, sh, th, k, gh, hist>>
     ELSE StepT(Drainer(sc)) /\ UNCHANGED phase

Next == Run \/ StartDrain \/ Drain

Spec == Init /\ [][Next]_vars

(* Liveness (C06 as a temporal property): under weak fairness of the next-state action every
   behaviour reaches the end of the drain, i.e. every call of every thread returns.  The graph
   must be finite: TrackHist = FALSE.  The instance with the zero-display spin (D4) has a lasso. *)
LiveSpec == Spec /\ WF_vars(Next)
Terminates == <>(phase = "done")

-----------------------------------------------------------------------------
(* Properties (the monitors of Level.tla on the model's own state) *)

Inv_C12      == Mon_C12(sh, gh)
Inv_C08cover == Mon_C08_cover(sh, gh)
Inv_C03      == (phase = "run" /\ AllIdle) => Mon_C03(sh, gh)
Inv_C01q     == (phase = "run" /\ AllIdle) => Mon_C01(sh)
Inv_C08drain == phase = "done" => Mon_C08_drained(sh, gh) /\ Mon_C03(sh, gh)
Inv_C13      == Mon_C13(gh)
Inv_C13raw   == Mon_C13(gh) /\ "KF-C13-1" \notin gh.kf      \* expected to FAIL: witness of D8
Inv_C14      == Mon_C14(gh)
Inv_C15      == (phase # "drain" /\ AllIdle) => Mon_C15(sh, gh)
Inv_NoBad    == gh.bad = {}

Obs == [vis |-> sh.vis, hid |-> sh.hid, cnt |-> sh.cnt, orders |-> MapSeq(sh.qmap),
        tickets |-> sh.tickets, st |-> sh.st, gen |-> sh.gen]

Inv_Emit == (EmitReplays /\ phase = "done") =>
              PrintT(<<"REPLAY", ToJson([sc |-> sc, sched |-> hist, final |-> Obs, kf |-> SetToSeq(gh.kf),
                                       drainq |-> th[Drainer(sc)].call.q])>>)

=============================================================================
