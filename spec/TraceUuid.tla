------------------------------ MODULE TraceUuid ------------------------------
(***************************************************************************)
(* Trace validation for the id generator (C14).  Lines: reset | call | op  *)
(* (gen, fetch_add, v, r) | ret (id = n with uuid = v5(namespace, n), raw) *)
(* | end (second generator called sequentially; final counter).            *)
(* Conformance: every call is exactly one fetch_add(1) on the counter      *)
(* returning the model's counter; the id returned is v5(ns, that value).   *)
(* Monitors: ids pairwise distinct (on the raw strings too); the second    *)
(* generator reproduces id number k for call number k.                     *)
(***************************************************************************)
EXTENDS Integers, Sequences, FiniteSets, TLC, Json, IOUtils, SequencesExt

Rec == ndJsonDeserialize(IOEnv.TRACE)
VARIABLES l, counter, pend, got, raws, ex, sum
vars == <<l, counter, pend, got, raws, ex, sum>>

Init == /\ l = 1 /\ counter = 0 /\ pend = <<>> /\ got = <<>> /\ raws = {}
        /\ ex = [sc |-> -1, run |-> -1, drift |-> 0]
        /\ sum = [execs |-> 0, calls |-> 0, drifts |-> {}, fails |-> {}]
Line == Rec[l]
Fail(m) == [mon |-> m, line |-> l, sc |-> ex.sc, run |-> ex.run]
Add(s, fs) == IF Cardinality(s.fails) >= 20 THEN s
              ELSE [s EXCEPT !.fails = @ \cup {f \in fs : ~\E h \in s.fails : h.mon = f.mon /\ h.sc = f.sc /\ h.run = f.run}]
Drift(s) == IF Cardinality(s.drifts) >= 20 THEN s ELSE [s EXCEPT !.drifts = @ \cup {[line |-> l, sc |-> ex.sc, run |-> ex.run]}]

DoReset == /\ Line.k = "reset"
           /\ counter' = 0 /\ pend' = [t \in 1..Line.n |-> -1] /\ got' = <<>> /\ raws' = {}
           /\ ex' = [sc |-> Line.sc, run |-> Line.run, drift |-> 0]
           /\ sum' = [sum EXCEPT !.execs = @ + 1]
DoCall == Line.k = "call" /\ UNCHANGED <<counter, pend, got, raws, ex, sum>>
DoOp ==
  /\ Line.k = "op"
  /\ LET ok == Line.o = "gen" /\ Line.op = "fetch_add" /\ Line.v = 1 /\ Line.r = counter /\ Line.g = counter + 1
               /\ pend[Line.t] = -1
     IN /\ counter' = Line.g
        /\ pend' = [pend EXCEPT ![Line.t] = Line.r]
        /\ ex' = IF ok \/ ex.drift # 0 THEN ex ELSE [ex EXCEPT !.drift = l]
        /\ sum' = IF ok \/ ex.drift # 0 THEN sum ELSE Drift(sum)
  /\ UNCHANGED <<got, raws>>
(* The PROPERTY (C14) is judged on the raw ids alone: no id is returned twice, and generators with the
   same namespace issue the same ids for the same number of calls.  That the id of the call which took
   counter value n is v5(namespace, n) is conformance to the model of the pinned derivation: a deviation
   is drift (the check then escalates with more calls and counter positions), not a violation. *)
DoRet ==
  /\ Line.k = "ret"
  /\ LET ok == pend[Line.t] # -1 /\ Line.id = pend[Line.t]      \* the id is v5(ns, value taken by this call)
         dup == Line.raw \in raws
     IN /\ got' = Append(got, Line.id) /\ raws' = raws \cup {Line.raw}
        /\ pend' = [pend EXCEPT ![Line.t] = -1]
        /\ ex' = IF ok \/ ex.drift # 0 THEN ex ELSE [ex EXCEPT !.drift = l]
        /\ sum' = Add(IF ok \/ ex.drift # 0 THEN [sum EXCEPT !.calls = @ + 1] ELSE Drift([sum EXCEPT !.calls = @ + 1]),
                      IF dup THEN {Fail("C14")} ELSE {})
  /\ UNCHANGED counter
DoEnd ==
  /\ Line.k = "end"
  /\ LET g2 == Line.gen2
         g3 == Line.gen3
         raws2 == {g2[k].raw : k \in DOMAIN g2}
         okrepro == /\ Len(g2) = Line.total /\ Len(g3) = Line.total /\ Len(got) = Line.total
                    /\ \A k \in DOMAIN g2 : g2[k].raw = g3[k]         \* two generators, call by call
                    /\ Cardinality(raws2) = Line.total               \* pairwise distinct
                    /\ raws2 = raws                                  \* the concurrent run issued the same ids
                    /\ raws \cap {Line.early[k] : k \in DOMAIN Line.early} = {}   \* none of the ids a generator at counter 0 issues first
         okmodel == /\ \A k \in DOMAIN g2 : g2[k].id = k - 1            \* call number k gets v5(ns, k-1)
                    /\ Range(got) = {k - 1 : k \in 1..Line.total}
     IN sum' = Add(IF okmodel \/ ex.drift # 0 THEN sum ELSE Drift(sum), IF okrepro THEN {} ELSE {Fail("C14")})
  /\ UNCHANGED <<counter, pend, got, raws, ex>>
Next == /\ l <= Len(Rec) /\ l' = l + 1 /\ (DoReset \/ DoCall \/ DoOp \/ DoRet \/ DoEnd)
Spec == Init /\ [][Next]_vars
Done == l = Len(Rec) + 1
Summary == [lines |-> Len(Rec), execs |-> sum.execs, calls |-> sum.calls, drifts |-> SetToSeq(sum.drifts), fails |-> SetToSeq(sum.fails), kf |-> <<>>]
EmitSummary == Done => PrintT(<<"SUMMARY", ToJson(Summary)>>)
=============================================================================
