"""C16 (text round trips), C17 (JSON round trips), C18 (parsers are total)."""
import os, json
from common import *


def run_codec(work, tier, res, faults, mult=1):
    n = (40 if tier == "quick" else 4000) * mult
    sc = {"n": n, "seed": seed() * 17 + 3, "stride": 1 if faults else 50, "fault_sources": (4 if tier == "quick" else 200) if faults else 1,
          "hang_file": work.path("hang.txt")}
    try:
        h = run_harness("codec", [sc], work, "codec", timeout=3000)
    except ToolError as e:
        if os.path.exists(work.path("hang.txt")):
            inp = open(work.path("hang.txt")).read()
            res.violation("a parser did not return within 10 s", {"driver": "codec", "input": inp[:2000]})
            return None, None
        raise
    s = tv(h["trace"], "TraceCodec", "TraceCodec", work, timeout=3000)
    return h, s


def first_line(h, i):
    l = read_trace_lines(h["trace"])[i - 1]
    return {k: (v if not isinstance(v, str) or len(v) < 600 else v[:600] + "...") for k, v in l.items()}


def check_roundtrip(prop, tier):
    res = Result(prop, tier, "model_checking")
    work = Work(prop)
    try:
        res.add(build_s=round(build_harness(), 1))
        r = require_ok(tlc("MCCodec", os.path.join(SPEC, "mc", "MCCodec.cfg"), work, workers=1), "format injectivity")
        sizes = r["prints"].get("SIZES", [{}])[-1]
        ndom = sum(sizes.values()) if sizes else 1
        res.add(states=ndom, transitions=ndom, checker_cmd="tlc MCCodec INVARIANT Inv_Text Inv_Json (encoders injective on the bounded value domains)", format_domain_sizes=sizes)
        h, s = run_codec(work, tier, res, faults=False)
        if s:
            key, first = ("badtext", "firstbadtext") if prop == "C16" else ("badjson", "firstbadjson")
            res.add(traces_validated_against_impl=1, values_round_tripped=s["texts"] if prop == "C16" else s["jsons"], types_covered=s["types"])
            if s[key]:
                res.violation("%d values do not round-trip through the %s form as the specification says" % (s[key], "text" if prop == "C16" else "JSON"),
                              {"driver": "codec", "line": first_line(h, s[first])})
            dkey, dfirst = ("drifttext", "firstdrifttext") if prop == "C16" else ("driftjson", "firstdriftjson")
            if s[dkey] and not res.violations:
                # the library's encoding is not letter for letter the format model's: the injectivity result does
                # not transfer.  ESCALATION: many more values through the real round trip, judged by the property alone.
                dl = first_line(h, s[dfirst])
                h2, s2 = run_codec(work, tier, res, faults=False, mult=10 if tier == "quick" else 3)
                if s2:
                    res.add(values_round_tripped=s2["texts"] if prop == "C16" else s2["jsons"], escalation_values=s2["values"])
                    if s2[key]:
                        res.violation("%d values do not round-trip through the %s form (escalation after format drift)" % (s2[key], "text" if prop == "C16" else "JSON"),
                                      {"driver": "codec", "line": first_line(h2, s2[first])})
                res.downgrade("%d encodings of type %s differ from the format model, first: %s" % (s[dkey], dl.get("ty"), str(dl.get("text" if prop == "C16" else "json"))[:120]),
                              res.cov.get("values_round_tripped", 0), res.cov.get("values_round_tripped", 0),
                              "values of every codec type (boundary values included) printed and parsed back by the library; equality judged on the recorded field-by-field projection")
            for l in read_trace_lines(h["trace"])[:400:97]:
                if l["k"] == "c":
                    res.sample({"ty": l["ty"], "text": l.get("text", "")[:200], "json": l.get("json", "")[:200]})
        res.assumptions += ["numbers are opaque strings in the specification: the decimal rendering of an integer is exercised by the round trip on boundary values (0, 1, 2^53+1, 2^63-1, u64::MAX, i64::MIN/MAX), not modelled",
                            "level / queue values are compared as sets of orders (listing order of equal timestamps is map order)"]
        return res.finish()
    finally:
        work.cleanup()


def check_c18(prop, tier):
    res = Result(prop, tier, "fault_enumeration")
    work = Work(prop)
    try:
        res.add(build_s=round(build_harness(), 1))
        h, s = run_codec(work, tier, res, faults=True)
        if s:
            res.add(evaluations=s["parseinputs"], distinct_nontrivial=s["distinctinputs"], families=s["parsefamilies"],
                    rule="every generated valid text/JSON encoding of every codec type, mutated at every character position by deletion, duplication, insertion and substitution of one of 13 characters (2-, 3-, 4-byte characters, separators, NUL, digit, quote) and truncated at every position, plus long insertions (runs of 13..256 characters ending in a 2-, 3- or 4-byte character, and 5000-character runs) after every separator, 1..16 further key=value pairs / JSON members (unknown and repeated), fed to the parser of its type; every unmodified encoding cross-fed to every other parser; 35 hand-written specials (empty, unbalanced, 10^4-deep brackets, 40-digit numbers, repeated/unknown keys) fed to every entry point. distinct = distinct (parser, input) pairs by hash; non-trivial = all (each is a separate malformed or foreign input)")
            if s["badparse"]:
                l = first_line(h, s["firstbadparse"])
                res.violation("parser %s/%s panicked on %d inputs of family %s" % (l["ty"], l["entry"], l["panic"], l["mut"]), {"driver": "codec", "parser": l["ty"], "entry": l["entry"], "input": l["first"]})
            for l in read_trace_lines(h["trace"]):
                if l["k"] == "p" and len(res.cov["samples"]) < 5:
                    res.sample({k: l[k] for k in ("ty", "entry", "mut", "n", "ok", "err", "panic")})
        res.assumptions += ["a panic is caught with catch_unwind; non-termination by a 10 s watchdog", "fault enumeration generated from the format model; not a proof of totality"]
        return res.finish()
    finally:
        work.cleanup()
