------------------------------ MODULE TraceGrid ------------------------------
(***************************************************************************)
(* C05, implementation -> specification: every recorded call of the real   *)
(* OrderType::match_against on the grid must return exactly what           *)
(* Orders!MatchAgainst says and satisfy Orders!RuleC05; the recorded       *)
(* inputs must be exactly the grid TLC model-checked (MCGrid), so there is *)
(* one implementation test per model state.  Also with_reduced_quantity    *)
(* and refresh_iceberg against their transcriptions.                       *)
(***************************************************************************)
EXTENDS MCGrid, Json, IOUtils, FiniteSetsExt

Rec == ndJsonDeserialize(IOEnv.TRACE)
Of(kind) == {i \in DOMAIN Rec : Rec[i].k = kind}

MaOk(e) == MatchAgainst(e.o, e.q) = e.r /\ RuleC05(e.o, e.q, e.r)
WrOk(e) == WithReducedQuantity(e.o, e.n) = e.r
RiOk(e) == RefreshIceberg(e.o, e.n) = e.r

BadMa == {i \in Of("ma") : ~MaOk(Rec[i])}
BadWr == {i \in Of("wr") : ~WrOk(Rec[i])}
BadRi == {i \in Of("ri") : ~RiOk(Rec[i])}
Panics == Of("panic")
Inputs == {<<Rec[i].o, Rec[i].q>> : i \in Of("ma")}
Covered == Inputs = GridOrders \X GridQs

First(S) == IF S = {} THEN 0 ELSE Min(S)
Summary == [lines |-> Len(Rec), ma |-> Cardinality(Of("ma")), wr |-> Cardinality(Of("wr")), ri |-> Cardinality(Of("ri")),
            badma |-> Cardinality(BadMa), badwr |-> Cardinality(BadWr), badri |-> Cardinality(BadRi),
            panics |-> Cardinality(Panics), firstbad |-> First(BadMa \cup BadWr \cup BadRi \cup Panics),
            covered |-> Covered, grid |-> Cardinality(GridOrders \X GridQs)]
TInit == o = NoOrder /\ q = 0
TSpec == TInit /\ [][Next]_vars
EmitSummary == PrintT(<<"SUMMARY", ToJson(Summary)>>)
=============================================================================
