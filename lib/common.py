"""Orchestration helpers: build the harness from /repo's working tree, run TLC, run the
harness, validate traces, classify, write evidence.  No third-party imports."""
import json, os, re, shutil, subprocess, sys, time, hashlib, uuid

VERIF = os.path.dirname(os.path.dirname(os.path.abspath(__file__)))
SPEC = os.path.join(VERIF, "spec")
HARNESS = os.path.join(VERIF, "harness")
PLV = os.path.join(HARNESS, "target", "release", "plv")
REPO = "/repo"
TLA_CP = "/opt/veriftools/tla/tla2tools.jar:/opt/veriftools/tla/CommunityModules-deps.jar"


class ToolError(Exception):
    """A defect of this machinery or an unusable tree: exit 2, never a violation."""


def seed():
    try:
        return int(os.environ.get("VERIF_SEED", "1"))
    except ValueError:
        return 1


class Rng:
    """splitmix64 (same generator as the harness)"""

    def __init__(self, s):
        self.s = s & 0xFFFFFFFFFFFFFFFF

    def next(self):
        self.s = (self.s + 0x9E3779B97F4A7C15) & 0xFFFFFFFFFFFFFFFF
        z = self.s
        z = ((z ^ (z >> 30)) * 0xBF58476D1CE4E5B9) & 0xFFFFFFFFFFFFFFFF
        z = ((z ^ (z >> 27)) * 0x94D049BB133111EB) & 0xFFFFFFFFFFFFFFFF
        return z ^ (z >> 31)

    def below(self, n):
        return self.next() % n

    def range(self, lo, hi):
        return lo + self.next() % (hi - lo + 1)

    def choice(self, xs):
        return xs[self.below(len(xs))]

    def chance(self, num, den):
        return self.next() % den < num


class Work:
    """per-run scratch directory under /verif/work, removed on exit"""

    def __init__(self, name):
        self.dir = os.path.join(VERIF, "work", "%s-%d" % (name, os.getpid()))
        shutil.rmtree(self.dir, ignore_errors=True)
        os.makedirs(self.dir)

    def path(self, f):
        return os.path.join(self.dir, f)

    def cleanup(self):
        shutil.rmtree(self.dir, ignore_errors=True)


def build_harness():
    """(re)build the harness against /repo's current working tree, hooks on"""
    lock_src = os.path.join(REPO, "Cargo.lock")
    lock_dst = os.path.join(HARNESS, "Cargo.lock")
    if os.path.exists(lock_src) and not os.path.exists(lock_dst):
        shutil.copy(lock_src, lock_dst)
    env = dict(os.environ, CARGO_NET_OFFLINE="true")
    t0 = time.time()
    p = subprocess.run(["cargo", "build", "--release", "--offline"], cwd=HARNESS, env=env, stdout=subprocess.PIPE, stderr=subprocess.STDOUT, text=True)
    if p.returncode != 0 and "Cargo.lock" in p.stdout and os.path.exists(lock_src):
        shutil.copy(lock_src, lock_dst)
        p = subprocess.run(["cargo", "build", "--release", "--offline"], cwd=HARNESS, env=env, stdout=subprocess.PIPE, stderr=subprocess.STDOUT, text=True)
    if p.returncode != 0:
        raise ToolError("harness build failed (tree does not compile with hooks on?)\n" + p.stdout[-3000:])
    return time.time() - t0


_RE_STATES = re.compile(r"(\d+) states generated, (\d+) distinct states found")
_RE_DEPTH = re.compile(r"depth of the complete state graph search is (\d+)")
_RE_VIOL = re.compile(r"Invariant (\S+) is violated")
_RE_PRINT = re.compile(r'^<<"([A-Z]+)", "(.*)">>$')


def _unescape(s):
    # TLC prints a TLA+ string: backslash-escaped quotes and backslashes
    return json.loads('"' + s + '"')


def tlc(module, cfg, work, workers=8, env=None, timeout=900, extra=(), heap=None, simulate=None):
    """Run TLC on spec/<module>.tla with config file `cfg`. Returns a dict."""
    meta = work.path("tlc-%s-%s" % (module, uuid.uuid4().hex[:10]))
    e = dict(os.environ)
    if env:
        e.update(env)
    # -Xss on the command line (not only JAVA_TOOL_OPTIONS): the launcher sizes the main thread, which
    # evaluates initial states and their invariants, from the command line
    jtmp = work.path("jtmp")
    os.makedirs(jtmp, exist_ok=True)
    cmd = ["java", "-XX:+UseParallelGC", "-Xss1g", "-Djava.io.tmpdir=" + jtmp]
    if heap:
        cmd.append("-Xmx" + heap)
    cmd += ["-cp", TLA_CP, "tlc2.TLC", "-workers", str(workers), "-metadir", meta, "-cleanup", "-noGenerateSpecTE", "-config", cfg]
    if simulate:
        cmd += ["-simulate", simulate]
    cmd += list(extra) + [os.path.join(SPEC, module + ".tla")]
    t0 = time.time()
    try:
        p = subprocess.run(["timeout", str(timeout)] + cmd, cwd=SPEC, env=e, stdout=subprocess.PIPE, stderr=subprocess.STDOUT, text=True)
    finally:
        shutil.rmtree(meta, ignore_errors=True)
    out = p.stdout
    res = {"out": out, "rc": p.returncode, "wall": time.time() - t0, "generated": 0, "distinct": 0, "depth": 0, "violated": _RE_VIOL.findall(out), "prints": {}, "cmd": " ".join(cmd)}
    for m in _RE_STATES.finditer(out):
        res["generated"], res["distinct"] = int(m.group(1)), int(m.group(2))
    m = _RE_DEPTH.search(out)
    if m:
        res["depth"] = int(m.group(1))
    for line in out.splitlines():
        m = _RE_PRINT.match(line.strip())
        if m:
            try:
                res["prints"].setdefault(m.group(1), []).append(json.loads(_unescape(m.group(2))))
            except Exception:
                pass
    if p.returncode == 124:
        res["error"] = "timeout"
    elif "Model checking completed. No error has been found." in out or res["violated"]:
        res["error"] = None
    elif simulate and p.returncode == 0:
        res["error"] = None
    else:
        res["error"] = "tlc failed (rc=%d)" % p.returncode
    return res


def require_ok(r, what):
    """the TLC run must have completed without any error (else: tool error)"""
    if r["error"] or r["violated"]:
        raise ToolError("%s: %s %s\n%s" % (what, r["error"], r["violated"], tail(r["out"])))
    return r


def tail(s, n=60):
    ls = [l for l in s.splitlines() if not l.startswith(("Parsing file", "Semantic processing", "Linting of"))]
    return "\n".join(ls[-n:])


def write_cfg(work, name, base, subst=None, add=None, drop=None):
    """derive a config from spec/mc/<base>.cfg"""
    txt = open(os.path.join(SPEC, "mc", base + ".cfg")).read()
    for k, v in (subst or {}).items():
        txt, n = re.subn(r"(?m)^(\s*%s\s*(=|<-)\s*).*$" % re.escape(k), lambda m: m.group(1) + v, txt)
        if n == 0:
            raise ToolError("cfg %s has no constant %s" % (base, k))
    for d in drop or []:
        txt = re.sub(r"(?m)^\s*INVARIANT\s+%s\s*$\n?" % re.escape(d), "", txt)
    for a in add or []:
        txt += "\n" + a
    p = work.path(name + ".cfg")
    open(p, "w").write(txt + "\n")
    return p


def run_harness(driver, scenarios, work, name, timeout=900):
    sp = work.path(name + ".scen.ndjson")
    tp = work.path(name + ".trace.ndjson")
    mp = work.path(name + ".meta.json")
    with open(sp, "w") as f:
        for s in scenarios:
            f.write(json.dumps(s) + "\n")
    t0 = time.time()
    p = subprocess.run(["timeout", str(timeout), PLV, driver, sp, tp, mp], stdout=subprocess.PIPE, stderr=subprocess.STDOUT, text=True)
    if p.returncode != 0:
        raise ToolError("harness %s failed rc=%d: %s" % (driver, p.returncode, p.stdout[-2000:]))
    meta = json.load(open(mp)) if os.path.exists(mp) else []
    return {"trace": tp, "meta": meta, "wall": time.time() - t0, "scen": sp}


TV_PAR = int(os.environ.get("VERIF_TV_PAR", "6"))


def _tv1(trace, module, cfg, work, timeout):
    env = {"TRACE": trace, "JAVA_TOOL_OPTIONS": "-Xss1g -Dtlc2.tool.queue.IStateQueue=StateDeque"}
    r = tlc(module, cfg, work, workers=1, env=env, timeout=timeout, heap="6g")
    if (r["error"] or "SUMMARY" not in r["prints"]) and r["error"] != "timeout":
        r = tlc(module, cfg, work, workers=1, env=env, timeout=timeout, heap="6g")   # one retry (transient JVM failures)
    if r["error"] or r["violated"] or "SUMMARY" not in r["prints"]:
        raise ToolError("trace validation by %s did not complete: %s\n%s" % (module, r["error"], tail(r["out"])))
    s = r["prints"]["SUMMARY"][-1]
    nlines = sum(1 for _ in open(trace))
    if s.get("lines") != nlines:
        raise ToolError("trace validation consumed %s of %d lines" % (s.get("lines"), nlines))
    s["wall"] = r["wall"]
    s["tlc_states"] = r["distinct"]
    return s


def tv(trace, module, cfgname, work, timeout=900, subst=None):
    """TLC trace validation; returns the SUMMARY record printed by the trace spec.  A long recording that
    consists of independent executions (each opened by a reset line, which re-initialises every variable
    of the trace spec) is cut at reset lines and the pieces are validated in parallel; the summaries
    are added up, line numbers shifted back to the whole recording."""
    cfg = write_cfg(work, "tv-" + module, cfgname, subst=subst) if subst else os.path.join(SPEC, "mc", cfgname + ".cfg")
    tag = '"k":"reset"'
    nlines = 0
    first = None
    with open(trace) as f:
        for ln in f:
            if first is None:
                first = ln
            nlines += 1
    pieces = min(TV_PAR, nlines // 12000) if first and tag in first else 1
    if pieces <= 1:
        return _tv1(trace, module, cfg, work, timeout)
    target = nlines // pieces + 1
    parts = []     # (path, offset)
    out = None
    n_in = 0
    with open(trace) as f:
        for i, ln in enumerate(f):
            if out is None or (n_in >= target and tag in ln):
                if out:
                    out.close()
                path = "%s.part%d" % (trace, len(parts))
                parts.append((path, i))
                out = open(path, "w")
                n_in = 0
            out.write(ln)
            n_in += 1
    if out:
        out.close()
    from concurrent.futures import ThreadPoolExecutor
    try:
        with ThreadPoolExecutor(max_workers=len(parts)) as ex:
            futs = [ex.submit(_tv1, p, module, cfg, work, timeout) for p, _ in parts]
            sums = [f.result() for f in futs]
    finally:
        for p, _ in parts:
            try:
                os.remove(p)
            except OSError:
                pass
    tot = {}
    for (p, off), s in zip(parts, sums):
        for k, v in s.items():
            if isinstance(v, bool):
                tot[k] = tot.get(k, True) and v
            elif isinstance(v, (int, float)):
                tot[k] = max(tot.get(k, 0), v) if k == "wall" else tot.get(k, 0) + v
            elif isinstance(v, list):
                acc = tot.setdefault(k, [])
                for x in v:
                    if isinstance(x, dict):
                        x = dict(x)
                        if "line" in x:
                            x["line"] += off
                        acc.append(x)
                    elif x not in acc:
                        acc.append(x)
            else:
                tot.setdefault(k, v)
    if tot.get("lines") != nlines:
        raise ToolError("trace validation consumed %s of %d lines" % (tot.get("lines"), nlines))
    tot["pieces"] = len(parts)
    return tot


def read_trace_lines(path):
    return [json.loads(l) for l in open(path)]


def trace_lines_of_kind(path, kind):
    """streams the recording and parses only the lines of one kind (recordings can be millions of lines)"""
    tag = '"k":"%s"' % kind
    out = []
    with open(path) as f:
        for l in f:
            if tag in l:
                out.append(json.loads(l))
    return out


def trace_line(path, n):
    """the n-th line (1-based) of a recording"""
    with open(path) as f:
        for i, l in enumerate(f, 1):
            if i == n:
                return json.loads(l)
    return None


# ---------------------------------------------------------------------------------------------
# known findings

def known_findings():
    p = os.path.join(VERIF, "known_findings.json")
    if not os.path.exists(p):
        return []
    return json.load(open(p))["findings"]


def open_findings(prop):
    return [f for f in known_findings() if f["property"] == prop and f["status"] == "open"]


# ---------------------------------------------------------------------------------------------
# result of a check

class Result:
    def __init__(self, prop, tier, level):
        self.prop, self.tier, self.level = prop, tier, level
        self.t0 = time.time()
        self.cov = {"samples": []}
        self.assumptions = []
        self.violations = []   # (what, replay dict)
        self.kf_seen = {}      # tag -> what
        self.notes = []

    def add(self, **kw):
        for k, v in kw.items():
            if isinstance(v, (int, float)) and not isinstance(v, bool) and k in self.cov and isinstance(self.cov[k], (int, float)):
                self.cov[k] += v
            else:
                self.cov[k] = v

    def sample(self, x, limit=6):
        if len(self.cov["samples"]) < limit:
            self.cov["samples"].append(x)

    def violation(self, what, replay):
        self.violations.append((what, replay))

    def downgrade(self, what, evaluations, distinct, rule):
        """DRIFT: the implementation is not the one the model describes although the property's own
        oracle holds on everything recorded; the exhaustive model result does not transfer"""
        if self.violations:
            return
        print("DRIFT property=%s %s (the property's own oracle holds on everything recorded)" % (self.prop, what))
        self.level = "exploration"
        self.cov["evaluations"] = evaluations
        self.cov["distinct_nontrivial"] = distinct
        self.cov["rule"] = rule

    def finish(self):
        os.makedirs(os.path.join(VERIF, "evidence"), exist_ok=True)
        os.makedirs(os.path.join(VERIF, "replays"), exist_ok=True)
        ev = {"property_id": self.prop, "tier": self.tier, "seed": seed(), "level": self.level, "coverage": self.cov,
              "assumptions": self.assumptions, "wall_s": round(time.time() - self.t0, 2), "violations": len(self.violations)}
        if self.notes:
            ev["coverage"]["notes"] = self.notes
        ev["coverage"]["known_findings_observed"] = sorted(self.kf_seen.keys())
        json.dump(ev, open(os.path.join(VERIF, "evidence", self.prop + ".json"), "w"), indent=1)
        listed = {f["id"]: f for f in open_findings(self.prop)}
        for tag in sorted(self.kf_seen):
            if tag in listed:
                print("KNOWN-FINDING: property=%s %s: %s" % (self.prop, tag, listed[tag]["what"]))
            else:
                # a finding tag that is not listed as open for this property is a violation
                self.violations.append(("unlisted finding %s: %s" % (tag, self.kf_seen[tag]), {"tag": tag}))
        if self.violations:
            for what, replay in self.violations[:5]:
                h = hashlib.sha1(json.dumps(replay, sort_keys=True).encode()).hexdigest()[:10]
                path = os.path.join(VERIF, "replays", "%s-%s.json" % (self.prop, h))
                json.dump({"property": self.prop, "what": what, "seed": seed(), "replay": replay}, open(path, "w"), indent=1)
                print("VIOLATION property=%s replay=%s" % (self.prop, path))
                print("  " + what)
            return 1
        print("OK property=%s tier=%s wall=%.1fs" % (self.prop, self.tier, time.time() - self.t0))
        return 0
