"""Scenario data shared by the TLA+ model (rendered as TLA+ constants) and the harness (JSON)."""
import json

PRICE = 100


def order(i, kind, vis, hid=0, thr=0, amt=-1, auto=False, ts=None, side="Buy", par=None):
    if par is None:
        par = {"TrailingStop": "GTC|5|100", "Pegged": "GTC|-3|BestBid"}.get(kind, "GTC")
    return {"id": i, "kind": kind, "vis": vis, "hid": hid, "thr": thr, "amt": amt, "auto": auto,
            "ts": i if ts is None else ts, "side": side, "px": PRICE, "par": par}


def S(i, v, **kw):
    return order(i, "Standard", v, **kw)


def I(i, v, h, **kw):
    return order(i, "Iceberg", v, h, **kw)


def R(i, v, h, thr, amt, auto, **kw):
    return order(i, "Reserve", v, h, thr, amt, auto, **kw)


def Add(o):
    return {"op": "add", "o": o}


def Match(q, taker=90):
    return {"op": "match", "q": q, "taker": taker}


def Cancel(i):
    return {"op": "cancel", "id": i}


def Amend(i, q):
    return {"op": "amend", "id": i, "q": q}


def Move(i, p):
    return {"op": "move", "id": i, "p": p}


def Upq(i, p, q):
    return {"op": "upq", "id": i, "p": p, "q": q}


def Replace(i, p, q, side="Sell"):
    return {"op": "replace", "id": i, "p": p, "q": q, "side": side}


READ = {"op": "read"}
LIST = {"op": "list"}
SNAPSHOT = {"op": "snapshot"}


def tla(v):
    """render a JSON-like value as a TLA+ expression"""
    if isinstance(v, bool):
        return "TRUE" if v else "FALSE"
    if isinstance(v, int):
        return str(v)
    if isinstance(v, str):
        return json.dumps(v)
    if isinstance(v, (list, tuple)):
        return "<<" + ", ".join(tla(x) for x in v) + ">>"
    if isinstance(v, dict):
        return "[" + ", ".join("%s |-> %s" % (k, tla(x)) for k, x in v.items()) + "]"
    raise TypeError(v)


BOOK3 = [S(1, 3), I(2, 2, 3), R(3, 2, 2, 1, 1, True)]
BOOK_PLAIN = [S(1, 3), order(2, "Pegged", 2), S(3, 1)]


def conc_scenarios(tier, rng):
    """programs of 2-3 threads on a pre-loaded level"""
    alpha = [Match(2), Match(4), Match(9), Cancel(1), Cancel(2), Cancel(3), Amend(1, 1), Amend(1, 5), Amend(2, 1),
             Add(S(4, 2)), READ]
    scs = []
    # all unordered pairs of single calls
    for a in range(len(alpha)):
        for b in range(a, len(alpha)):
            if alpha[a]["op"] == "add" and alpha[b]["op"] == "add":
                continue   # ids unique among resting orders
            scs.append({"init": BOOK3, "progs": [[alpha[a]], [alpha[b]]]})
    # the price-move / replace paths and a snapshotting reader against the main writers
    for x in [Move(3, PRICE + 1), Replace(1, PRICE, 2), Upq(2, PRICE + 1, 1), SNAPSHOT]:
        for y in [Match(2), Match(9), Cancel(1), Amend(1, 1), Add(S(4, 2))]:
            scs.append({"init": BOOK3, "progs": [[x], [y]]})
    # two calls per thread: curated, around the hand-over windows
    two = [
        [[Match(2), Add(S(4, 2))], [Amend(1, 1), Cancel(2)]],
        [[Match(4), Match(4)], [Cancel(1), READ]],
        [[Amend(1, 1), Match(1)], [Match(4), Cancel(3)]],
        [[Cancel(2), Add(I(4, 1, 1))], [Match(9), READ]],
        [[Amend(3, 1), Amend(3, 2)], [Match(3), Cancel(3)]],
        [[Add(S(4, 2)), Cancel(4)], [Match(9), Amend(4, 1)]],
    ]
    for p in two:
        scs.append({"init": BOOK3, "progs": p})
    scs.append({"init": BOOK_PLAIN, "progs": [[Match(1), Match(2)], [Amend(2, 1), Cancel(3)]]})
    # nearly empty books: the counters are close to zero, so a lost or doubled update shows as a wrap
    one = [S(1, 1)]
    for w in ([Match(1)], [Cancel(1)], [Amend(1, 2)], [Match(1), Match(1)]):
        scs.append({"init": one, "progs": [w, [Add(S(2, 1)), Cancel(2)]]})
        scs.append({"init": one, "progs": [w, [Add(I(2, 1, 1)), Match(1)]]})
    scs.append({"init": [I(1, 1, 1)], "progs": [[Match(2)], [Add(S(2, 1)), Cancel(2)], [Cancel(1)]]})
    # several matchers on a book that is mostly hidden quantity (replenishment in flight while the counters are near zero)
    scs.append({"init": [I(1, 1, 3)], "progs": [[Match(1)], [Match(1)]]})
    scs.append({"init": [I(1, 1, 3)], "progs": [[Match(1), Match(1)], [Match(2)]]})
    scs.append({"init": [R(1, 1, 3, 0, 1, True)], "progs": [[Match(1), Match(1)], [Match(1)]]})
    scs.append({"init": [I(1, 1, 2), R(2, 1, 2, 1, 1, True)], "progs": [[Match(2)], [Match(2)]]})
    # an amendment that RAISES the quantity of (nearly) the only order while a sweeping match runs: the counters
    # hold less than the order shows if the order is re-queued before it is credited
    scs.append({"init": one, "progs": [[Amend(1, 3)], [Match(3)]]})
    scs.append({"init": one, "progs": [[Amend(1, 3), READ], [Match(4), READ]]})
    scs.append({"init": [I(1, 1, 1)], "progs": [[Amend(1, 4)], [Match(5)]]})
    scs.append({"init": [S(1, 1), S(2, 1)], "progs": [[Upq(2, PRICE, 5)], [Match(9)]]})
    # orders that show nothing and cannot replenish (set aside by a match and re-queued when it ends) ahead of an
    # ordinary order that fills the request completely
    zi = [I(1, 0, 2), S(2, 2)]
    scs.append({"init": zi, "progs": [[Match(1)], [Match(1)]]})
    scs.append({"init": zi, "progs": [[Match(2)], [Cancel(1)]]})
    scs.append({"init": zi, "progs": [[Match(1)], [Amend(1, 1)]]})
    scs.append({"init": [R(1, 1, 2, 0, 0, True), S(2, 2)], "progs": [[Match(2)], [Match(1)]]})
    scs.append({"init": [I(1, 0, 1), I(2, 0, 1), S(3, 1)], "progs": [[Match(1)], [Amend(2, 1), Amend(1, 1)]]})
    # a reserve order that shows nothing but replenishes as soon as a match reaches it (hidden only)
    scs.append({"init": [R(1, 0, 3, 0, 1, True), S(2, 1)], "progs": [[Match(1)], [Match(2)]]})
    scs.append({"init": [R(1, 0, 2, 0, -1, True)], "progs": [[Match(1)], [Cancel(1)]]})
    # orders of size 0 (amended to 0 or added so): they weigh nothing in the counters but are in the book
    zero = [S(1, 2), S(2, 0)]
    scs.append({"init": zero, "progs": [[Match(2)], [Cancel(2)]]})
    scs.append({"init": zero, "progs": [[Match(2)], [Amend(2, 1)]]})
    scs.append({"init": [S(1, 0)], "progs": [[Cancel(1)], [READ]]})
    scs.append({"init": [S(1, 2)], "progs": [[Amend(1, 0), Cancel(1)], [Match(1)]]})
    scs.append({"init": [I(1, 0, 0), S(2, 1)], "progs": [[Cancel(1)], [Match(1)], [Amend(1, 0)]]})
    # orders whose own price field differs from the level's (add_order does not check it): transactions and
    # statistics must still be booked at the level's price, whoever matches them
    offp = [dict(S(1, 2), px=PRICE - 3), dict(I(2, 1, 2), px=PRICE + 2)]
    scs.append({"init": offp, "progs": [[Match(2)], [Match(2)]]})
    scs.append({"init": offp, "progs": [[Match(3), Cancel(2)], [Add(dict(S(3, 1), px=PRICE + 7)), Match(1)]]})
    if tier == "thorough":
        small = [Match(2), Match(4), Cancel(1), Amend(1, 1), Amend(2, 1), Add(S(4, 2))]
        for a in range(len(small)):
            for b in range(a, len(small)):
                for c in range(b, len(small)):
                    ops = [small[a], small[b], small[c]]
                    if sum(1 for o in ops if o["op"] == "add") > 1:
                        continue
                    if sum(o.get("q", 0) for o in ops if o["op"] == "match") > 8:
                        continue   # three sweeping matches at once: tens of millions of states
                    scs.append({"init": BOOK3, "progs": [[ops[0]], [ops[1]], [ops[2]]]})
        scs.append({"init": BOOK3, "progs": [[Match(2), Add(S(4, 2))], [Amend(1, 1), Cancel(2)], [Match(3), READ]]})
        scs.append({"init": BOOK3, "progs": [[Match(4), Cancel(3)], [Amend(1, 1), Amend(1, 2)], [Cancel(1), Match(1)]]})
    return scs


def conc_module(name, scs):
    body = ",\n  ".join(tla({"init": s["init"], "progs": s["progs"]}) for s in scs)
    return ("---- MODULE %s ----\nEXTENDS LevelConc\nGenScenarios == <<\n  %s\n>>\nGenIds == 1..4\n====\n" % (name, body))


def harness_level_scenario(sc, sched, drain=True, drain_q=1000000, log="micro", budget=600):
    return {"price": PRICE, "init": sc["init"], "threads": sc["progs"], "sched": sched, "drain": drain, "drain_q": drain_q,
            "log": log, "budget": budget}


# ---------------------------------------------------------------------------------------------
# random single-threaded histories over all seven kinds

KINDS = ["Standard", "Iceberg", "PostOnly", "TrailingStop", "Pegged", "MarketToLimit", "Reserve"]
TIFS = ["GTC", "IOC", "FOK", "DAY", "GTD-1700000000"]


def rand_order(rng, i, ts, zero_ok=True):
    kind = rng.choice(KINDS)
    vis = rng.choice([0, 1, 1, 2, 3, 5, 8, 12]) if zero_ok else rng.choice([1, 2, 3, 5, 8, 12])
    tif = rng.choice(TIFS)
    side = rng.choice(["Buy", "Sell"])
    if kind == "Iceberg":
        return order(i, kind, vis, rng.choice([0, 1, 2, 5, 9]), ts=ts, side=side, par=tif)
    if kind == "Reserve":
        amt = rng.choice([-1, -1, 0, 1, 2, 5, 80, 100])      # 80 = the library's default amount, given explicitly
        hid = rng.choice([0, 1, 3, 7, 79, 80, 81, 200]) if amt in (-1, 80) else rng.choice([0, 1, 3, 7, 12])
        return order(i, kind, vis, hid, rng.choice([0, 0, 1, 2, 3]), amt, rng.chance(2, 3), ts=ts, side=side, par=tif)
    if kind == "TrailingStop":
        return order(i, kind, vis, ts=ts, side=side, par="%s|%d|%d" % (tif, rng.range(0, 9), rng.range(90, 110)))
    if kind == "Pegged":
        return order(i, kind, vis, ts=ts, side=side, par="%s|%d|%s" % (tif, rng.range(0, 10) - 5, rng.choice(["BestBid", "BestAsk", "MidPrice", "LastTrade"])))
    return order(i, kind, vis, ts=ts, side=side, par=tif)


def seq_history(rng, nops, nids=6, monotone_ts=True, zero_ok=True, reads=True, vary_px=False, price=None, self_taker=False):
    """price: the level's price (default PRICE); self_taker: some matches carry the id of a possibly resting order as taker"""
    P = PRICE if price is None else price
    lo = max(P - 1, 0)
    calls = []
    ts = 0
    for _ in range(nops):
        x = rng.below(100)
        i = rng.range(1, nids)
        if x < 30:
            ts = ts + 1 if monotone_ts else rng.range(0, 4)      # 0: "no arrival time" for the statistics
            o = rand_order(rng, i, ts, zero_ok)
            o["px"] = P
            if vary_px:
                # the order's own price field is not checked by add_order: it may differ from the level's
                o["px"] = rng.choice([max(P - 2, 0), lo, P, P + 1, P + 2])
            calls.append(Add(o))
        elif x < 58:
            m = Match(rng.choice([0, 1, 1, 2, 3, 4, 6, 9, 15, 300]) if zero_ok else rng.choice([1, 1, 2, 3, 4, 6, 9, 15, 300]))
            if self_taker and rng.chance(1, 3):
                m["taker"] = rng.range(1, nids)       # the taker's id may be the id of an order resting here
            calls.append(m)
        elif x < 66:
            calls.append(Cancel(i))
        elif x < 78:
            calls.append(Amend(i, rng.choice([0, 1, 2, 3, 5, 9, 14]) if zero_ok else rng.choice([1, 2, 3, 5, 9, 14])))
        elif x < 82:
            calls.append(Move(i, rng.choice([P, P + 1, lo])))
        elif x < 86:
            calls.append(Upq(i, rng.choice([P, P + 1]), rng.choice([0, 1, 2, 4, 7]) if zero_ok else rng.choice([1, 2, 4, 7])))
        elif x < 90:
            calls.append(Replace(i, rng.choice([P, P + 1, lo]), rng.choice([0, 1, 2, 4, 7]) if zero_ok else rng.choice([1, 2, 4, 7]),
                                 side=rng.choice(["Buy", "Sell"])))
        elif reads:
            calls.append({"op": rng.choice(["read", "list", "snapshot", "display", "serialize", "stats", "snapjson"])})
    return calls


def seq_scenario(calls, budget=3000, price=None):
    return {"price": PRICE if price is None else price, "init": [], "threads": [calls], "sched": {"mode": "fixed", "seq": []}, "drain": False, "log": "macro", "budget": budget}


def wide_conc_scenarios(rng, n=5):
    """4 threads x 2-3 calls on a 5-order book of all hidden/plain classes: too wide for exhaustive
    exploration, used with TLC -simulate in the thorough tier"""
    book = [S(1, 4), I(2, 2, 5), R(3, 2, 3, 1, 1, True), order(4, "Pegged", 3), R(5, 1, 4, 0, 0, True)]
    alpha = [Match(1), Match(3), Match(7), Match(20), Cancel(1), Cancel(2), Cancel(3), Cancel(5), Amend(1, 2), Amend(2, 1),
             Amend(4, 5), Amend(3, 0), READ, Move(4, PRICE + 1), Upq(2, PRICE, 3)]
    out = []
    for k in range(n):
        progs = []
        fresh = 6
        for t in range(4):
            calls = []
            for _ in range(rng.range(2, 3)):
                if rng.chance(1, 6):
                    calls.append(Add(S(fresh, rng.range(1, 4))))
                    fresh += 1
                else:
                    calls.append(rng.choice(alpha))
            progs.append(calls)
        out.append({"init": book, "progs": progs})
    return out
