------------------------------ MODULE TraceSeq ------------------------------
(***************************************************************************)
(* Trace validation of single-threaded histories, macro grain: one line    *)
(* per call of the real code ("cr": call, result, full observed state      *)
(* after it including what the read API reports).                          *)
(*  (1) CONFORMANCE: the model runs the same call from its state           *)
(*      (Level!RunCall) and must predict the logged result and the logged  *)
(*      state (book, tickets, statistics, id counter).  A mismatch is      *)
(*      recorded as drift and the model is re-anchored on the observed     *)
(*      state, so the rest of the history is still examined.               *)
(*  (2) VERDICT: LevelSeq!CallVerdict judges the call from the observed    *)
(*      state before/after, the logged result and a ghost advanced from    *)
(*      observations only.                                                 *)
(***************************************************************************)
EXTENDS LevelSeq, TraceCommon

CONSTANT Fuel

VARIABLES l, sh, ob, sg, ex, sum
vars == <<l, sh, ob, sg, ex, sum>>

MaxFails == 20
AddFails(s, fs) ==
  LET new == {f \in fs : ~\E g \in s.fails : g.mon = f.mon /\ g.sc = f.sc /\ g.run = f.run} IN
  IF Cardinality(s.fails) >= MaxFails THEN s ELSE [s EXCEPT !.fails = @ \cup new]
Fail(mon, line) == [mon |-> mon, line |-> line, sc |-> ex.sc, run |-> ex.run]

Init ==
  /\ l = 1 /\ sh = EmptyShared /\ ob = EmptyShared
  /\ sg = SeqGhostInit(EmptyMap)
  /\ ex = [sc |-> -1, run |-> -1]
  /\ sum = [execs |-> 0, calls |-> 0, conform |-> 0, drifts |-> {}, fails |-> {}, kf |-> {}, matches |-> 0, trades |-> 0]

Line == Rec[l]

DoReset ==
  /\ Line.k = "reset"
  /\ LET o == ObsOf(Line.st) IN
     /\ sh' = o /\ ob' = o
     /\ sg' = SeqGhostInit(o.qmap)
     /\ ex' = [sc |-> Line.sc, run |-> Line.run]
     /\ sum' = AddFails([sum EXCEPT !.execs = @ + 1],
                        IF ApiOk(Line.st) THEN {} ELSE {[mon |-> "C01", line |-> l, sc |-> Line.sc, run |-> Line.run]})

DoCall ==
  /\ Line.k = "cr"
  /\ LET c    == Line.c
         r    == Line.r
         post == ObsOf(Line.st)
         modelled == c.op \notin GenericRO
         run  == RunCall(sh, c, Fuel)
         mret == IF run.hang THEN [t |-> "hang"] ELSE run.me.ret
         conf == IF modelled THEN mret.t = r.t /\ RetEq(mret, r) /\ run.sh = post
                 ELSE r.t = "ro" /\ sh = post
         v    == CallVerdict(ob, c, r, post, sg, IF modelled THEN [ret |-> mret, sh |-> run.sh] ELSE [ret |-> r, sh |-> sh])
         extra == (IF ApiOk(Line.st) THEN {} ELSE {"C01"})
                  \cup (IF r.t = "panic" THEN {"PANIC"} ELSE {})
                  \cup (IF r.t = "hang" /\ c.op # "match" THEN {"HANG"} ELSE {})
     IN /\ sh' = post                       \* re-anchor (equal to run.sh when conforming)
        /\ ob' = post
        /\ sg' = v.sg
        /\ sum' = AddFails([sum EXCEPT !.calls = @ + 1,
                                        !.conform = IF conf THEN @ + 1 ELSE @,
                                        !.drifts = IF conf \/ Cardinality(@) >= MaxFails THEN @
                                                   ELSE @ \cup {[line |-> l, sc |-> ex.sc, run |-> ex.run]},
                                        !.kf = @ \cup v.kf,
                                        !.matches = IF c.op = "match" THEN @ + 1 ELSE @,
                                        !.trades = IF r.t = "match" THEN @ + Len(r.txs) ELSE @],
                           {Fail(m, l) : m \in v.bad \cup extra})
  /\ UNCHANGED ex

DoEnd == Line.k = "end" /\ UNCHANGED <<sh, ob, sg, ex, sum>>

Next == /\ l <= Len(Rec) /\ l' = l + 1 /\ (DoReset \/ DoCall \/ DoEnd)
Spec == Init /\ [][Next]_vars

Done == l = Len(Rec) + 1
Summary == [lines |-> Len(Rec), execs |-> sum.execs, calls |-> sum.calls, conform |-> sum.conform,
            matches |-> sum.matches, trades |-> sum.trades,
            drifts |-> SetToSeq(sum.drifts), fails |-> SetToSeq(sum.fails), kf |-> SetToSeq(sum.kf)]
EmitSummary == Done => PrintT(<<"SUMMARY", ToJson(Summary)>>)
=============================================================================
