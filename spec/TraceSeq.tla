------------------------------ MODULE TraceSeq ------------------------------
(***************************************************************************)
(* Trace validation of single-threaded histories, macro grain: one line    *)
(* per call of the real code ("cr": call, result, full observed state      *)
(* after it including what the read API reports).                          *)
(*  (1) CONFORMANCE: the model runs the same call from its state           *)
(*      (Level!RunCall) and must predict the logged result and the logged  *)
(*      state (book, tickets, statistics, id counter).  A mismatch is      *)
(*      recorded as drift and the model is re-anchored on the observed     *)
(*      state, so the rest of the history is still examined.               *)
(*  (2) VERDICT: LevelSeq!CallVerdict judges the call from the observed    *)
(*      state before/after, the logged result and a ghost advanced from    *)
(*      observations only.                                                 *)
(***************************************************************************)
EXTENDS Snapshot, TraceCommon

CONSTANT Fuel

VARIABLES l, sh, ob, sg, ex, sum,
          ob2, fk,     \* C11: observed restored level and the fork flags (fk.on = a fork is active)
          shp          \* the model run on the observed calls WITHOUT re-anchoring: the queue the pinned design
                       \* would hold; the stale-ticket known findings are judged against it
vars == <<l, sh, ob, sg, ex, sum, ob2, fk, shp>>

MaxFails == 20
MaxPerMon == 6
AddFails(s, fs) ==
  \* the first failure of each monitor per execution, at most MaxPerMon executions per monitor
  \* (a cap over all monitors together would let a noisy monitor hide the others)
  LET new == {f \in fs : /\ ~\E g \in s.fails : g.mon = f.mon /\ g.sc = f.sc /\ g.run = f.run
                         /\ Cardinality({g \in s.fails : g.mon = f.mon}) < MaxPerMon} IN
  [s EXCEPT !.fails = @ \cup new]
Fail(mon, line) == [mon |-> mon, line |-> line, sc |-> ex.sc, run |-> ex.run]

Init ==
  /\ l = 1 /\ sh = EmptyShared /\ ob = EmptyShared /\ shp = EmptyShared
  /\ sg = SeqGhostInit(EmptyMap)
  /\ ex = [sc |-> -1, run |-> -1]
  /\ ob2 = EmptyShared /\ fk = [on |-> FALSE, good |-> TRUE, sameOrder |-> TRUE, noStale |-> TRUE]
  /\ sum = [execs |-> 0, calls |-> 0, conform |-> 0, drifts |-> {}, fails |-> {}, kf |-> {}, matches |-> 0, trades |-> 0,
            restores |-> 0, lockstep |-> 0, lockdiff |-> 0]

Line == Rec[l]

DoReset ==
  /\ Line.k = "reset"
  /\ LET o == ObsOf(Line.st) IN
     /\ sh' = o /\ ob' = o /\ shp' = o
     /\ sg' = SeqGhostInit(o.qmap)
     /\ ex' = [sc |-> Line.sc, run |-> Line.run]
     /\ ob2' = EmptyShared /\ fk' = [on |-> FALSE, good |-> TRUE, sameOrder |-> TRUE, noStale |-> TRUE]
     /\ sum' = AddFails([sum EXCEPT !.execs = @ + 1],
                        IF ApiOk(Line.st) THEN {} ELSE {[mon |-> "C01", line |-> l, sc |-> Line.sc, run |-> Line.run]})

DoCall ==
  /\ Line.k = "cr"
  /\ LET c    == Line.c
         r    == Line.r
         post == ObsOf(Line.st)
         modelled == c.op \notin GenericRO
         run  == RunCall(sh, c, Fuel)
         mret == IF run.hang THEN [t |-> "hang"] ELSE run.me.ret
         conf == IF modelled THEN mret.t = r.t /\ RetEq(mret, r) /\ run.sh = post
                 ELSE r.t = "ro" /\ sh = post
         \* C04: the model's prediction from the OBSERVED pre-state, and the surplus tickets of the observed queue
         \* must be ones the known mechanism accounts for (LevelSeq!LegitTickets, kept in the ghost)
         v    == CallVerdict(ob, c, r, post, sg, IF modelled THEN [ret |-> mret, sh |-> run.sh, pre |-> sh] ELSE [ret |-> r, sh |-> sh, pre |-> sh])
         lock == fk.on /\ Has(Line, "r2")
         post2 == IF lock THEN ObsOf(Line.st2) ELSE ob2
         run2 == RunCall(ob2, c, Fuel)
         \* the model predicts what C11 compares (results, book, effective queue order) for the original ...
         confB == modelled /\ mret.t = r.t /\ RetEq(mret, r) /\ Book(run.sh) = Book(post) /\ LiveOrder(run.sh) = LiveOrder(post)
         \* ... and for the copy (statistics and id counters are not part of the comparison)
         explained == confB /\ ~run2.hang /\ run2.me.ret.t = Line.r2.t /\ RetEq(run2.me.ret, Line.r2)
                      /\ Book(run2.sh) = Book(post2) /\ LiveOrder(run2.sh) = LiveOrder(post2)
         v11 == IF lock THEN C11Verdict(fk, r, Line.r2, explained) ELSE {}
         extra == (IF ApiOk(Line.st) THEN {} ELSE {"C01"})
                  \cup (IF ListOk(Line.st) THEN {} ELSE {"C10"})
                  \cup (IF r.t = "panic" THEN {"PANIC"} ELSE {})
                  \cup (IF r.t = "hang" /\ c.op # "match" THEN {"HANG"} ELSE {})
                  \cup (v11 \cap {"C11"})
     IN /\ sh' = post                       \* re-anchor (equal to run.sh when conforming)
        /\ ob' = post
        /\ sg' = v.sg
        /\ ob2' = post2 /\ fk' = fk
        /\ shp' = shp
        /\ sum' = AddFails([sum EXCEPT !.calls = @ + 1,
                                        !.lockstep = IF lock THEN @ + 1 ELSE @,
                                        !.lockdiff = IF lock /\ v11 # {} THEN @ + 1 ELSE @,
                                        !.conform = IF conf THEN @ + 1 ELSE @,
                                        !.drifts = IF conf \/ Cardinality(@) >= MaxFails THEN @
                                                   ELSE @ \cup {[line |-> l, sc |-> ex.sc, run |-> ex.run]},
                                        !.kf = @ \cup v.kf \cup (v11 \ {"C11"}),
                                        !.matches = IF c.op = "match" THEN @ + 1 ELSE @,
                                        !.trades = IF r.t = "match" THEN @ + Len(r.txs) ELSE @],
                           {Fail(m, l) : m \in v.bad \cup extra})
  /\ UNCHANGED ex

DoEnd == Line.k = "end" /\ UNCHANGED <<sh, ob, sg, ex, sum, ob2, fk, shp>>

(* C10: a second level built from the first through one restore path (possibly from input
   whose aggregate figures lie); C11: the same, kept for lock-step continuation *)
DoRestore ==
  /\ Line.k \in {"restore", "fork"}
  /\ LET na   == Has(Line, "na")      \* a forged package could not be built (the checksum recipe is not the pinned one)
         same == na \/
                 /\ Line.ok
                 /\ ObsOf(Line.st) = ob                       \* building the copy did not disturb the original (purity)
                 /\ RestoredSame(ob, Line.price2, ObsOf(Line.st2))
                 /\ ApiOk(Line.st2) /\ ListOk(Line.st2)
         good == ~na /\ same /\ RestoredQueue(ob, ObsOf(Line.st2))    \* ... and queued as the pinned code queues it
     IN /\ sum' = AddFails([sum EXCEPT !.restores = @ + 1,
                                        !.drifts = IF good \/ ~same \/ Cardinality(@) >= MaxFails THEN @
                                                   ELSE @ \cup {[line |-> l, sc |-> ex.sc, run |-> ex.run]}],
                           IF same THEN {}
                           \* a copy whose book differs is not equivalent either: listing it is already a
                           \* continuation with a different result (C11); a copy whose aggregates are not the sums
                           \* over the orders it lists breaks C01 ("rebuild from a snapshot or serialized form")
                           ELSE {Fail("C10", l)} \cup (IF Line.k = "fork" THEN {Fail("C11", l)} ELSE {})
                                \cup (IF Line.ok /\ ~(Mon_C01(ObsOf(Line.st2)) /\ ApiOk(Line.st2)) THEN {Fail("C01", l)} ELSE {}))
        /\ IF Line.k = "fork" /\ Line.ok
           THEN LET o2 == ObsOf(Line.st2) IN
                ob2' = o2 /\ fk' = [on |-> TRUE, good |-> good, sameOrder |-> ForkFlags(ob, o2).sameOrder, noStale |-> ForkFlags(ob, o2).noStale]
           ELSE UNCHANGED <<ob2, fk>>
  /\ UNCHANGED <<sh, ob, sg, ex, shp>>

Next == /\ l <= Len(Rec) /\ l' = l + 1 /\ (DoReset \/ DoCall \/ DoEnd \/ DoRestore)
Spec == Init /\ [][Next]_vars

Done == l = Len(Rec) + 1
Summary == [lines |-> Len(Rec), execs |-> sum.execs, calls |-> sum.calls, conform |-> sum.conform,
            matches |-> sum.matches, trades |-> sum.trades, restores |-> sum.restores,
            lockstep |-> sum.lockstep, lockdiff |-> sum.lockdiff,
            drifts |-> SetToSeq(sum.drifts), fails |-> SetToSeq(sum.fails), kf |-> SetToSeq(sum.kf)]
EmitSummary == Done => PrintT(<<"SUMMARY", ToJson(Summary)>>)
=============================================================================
