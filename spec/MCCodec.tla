------------------------------- MODULE MCCodec -------------------------------
(***************************************************************************)
(* Format design check for C16 / C17: on bounded value domains (structure  *)
(* x symbolic boundary atoms) every text encoder and every JSON encoder of *)
(* Codec.tla is injective - two different values never print alike - which *)
(* is what makes a decoder possible at all, and nested separators          *)
(* (':' ';' '=' ',' '[' ']', "GTD-n", negative offsets, "None") never make *)
(* two values collide.                                                     *)
(***************************************************************************)
EXTENDS Codec, Json

Atoms == {"0", "7", "18446744073709551615"}
IdsT  == {"00000000-0000-0001-0000-000000000000", "01ARZ3NDEKTSV4RRFFQ69G5FAV"}
SidesT == {"BUY", "SELL"}
Tifs  == {[t |-> "GTC", n |-> ""], [t |-> "DAY", n |-> ""], [t |-> "GTD", n |-> "0"], [t |-> "GTD", n |-> "18446744073709551615"]}
Pegs  == {"BestBid", "BestAsk", "MidPrice", "LastTrade"}

O(kind, id, price, vis, hid, side, ts, tif, thr, amt, auto, trail, lastref, off, peg) ==
  [kind |-> kind, id |-> id, price |-> price, vis |-> vis, hid |-> hid, side |-> side, ts |-> ts, tif |-> tif,
   thr |-> thr, amt |-> amt, auto |-> auto, trail |-> trail, lastref |-> lastref, off |-> off, peg |-> peg]

Orders ==
  {O(k, i, p, v, "", s, ts, tf, "", "", "", "", "", "", "") :
     k \in {"Standard", "PostOnly", "MarketToLimit"}, i \in IdsT, p \in Atoms, v \in Atoms, s \in SidesT, ts \in {"1", "2"}, tf \in Tifs}
  \cup {O("IcebergOrder", i, p, v, h, s, "1", tf, "", "", "", "", "", "", "") :
     i \in IdsT, p \in Atoms, v \in Atoms, h \in Atoms, s \in SidesT, tf \in Tifs}
  \cup {O("TrailingStop", i, p, v, "", s, "1", tf, "", "", "", tr, lr, "", "") :
     i \in IdsT, p \in {"0", "7"}, v \in Atoms, s \in SidesT, tf \in Tifs, tr \in {"0", "7"}, lr \in {"0", "7"}}
  \cup {O("PeggedOrder", i, p, v, "", s, "1", tf, "", "", "", "", "", off, pg) :
     i \in IdsT, p \in {"0", "7"}, v \in {"0", "7"}, s \in SidesT, tf \in Tifs, off \in {"0", "-7", "-9223372036854775808"}, pg \in Pegs}
  \cup {O("ReserveOrder", i, "7", v, h, s, "1", tf, th, am, au, "", "", "", "") :
     i \in IdsT, v \in {"0", "7"}, h \in {"0", "7"}, s \in SidesT, tf \in Tifs, th \in {"0", "7"}, am \in {"None", "0", "7"}, au \in {"true", "false"}}

Updates ==
  {[kind |-> "UpdatePrice", id |-> i, price |-> p, qty |-> "", side |-> ""] : i \in IdsT, p \in Atoms}
  \cup {[kind |-> "UpdateQuantity", id |-> i, price |-> "", qty |-> q, side |-> ""] : i \in IdsT, q \in Atoms}
  \cup {[kind |-> "UpdatePriceAndQuantity", id |-> i, price |-> p, qty |-> q, side |-> ""] : i \in IdsT, p \in Atoms, q \in Atoms}
  \cup {[kind |-> "Cancel", id |-> i, price |-> "", qty |-> "", side |-> ""] : i \in IdsT}
  \cup {[kind |-> "Replace", id |-> i, price |-> p, qty |-> q, side |-> s] : i \in IdsT, p \in Atoms, q \in Atoms, s \in SidesT}

Txs == {[txid |-> "6ba7b810-9dad-11d1-80b4-00c04fd430c8", taker |-> a, maker |-> b, price |-> p, qty |-> q, side |-> s, ts |-> t] :
          a \in IdsT, b \in IdsT, p \in Atoms, q \in Atoms, s \in SidesT, t \in {"0", "7"}}
SomeTx == {x \in Txs : x.price = "7" /\ x.ts = "0" /\ x.taker = x.maker}
TxLists == {<<>>} \cup {<<x>> : x \in SomeTx} \cup {<<x, y>> : x \in SomeTx, y \in SomeTx}
Mres == {[id |-> i, rem |-> r, complete |-> c, txs |-> xs, filled |-> f] :
           i \in IdsT, r \in {"0", "7"}, c \in {"true", "false"}, xs \in TxLists,
           f \in {<<>>} \cup {<<a>> : a \in IdsT} \cup {<<a, b>> : a \in IdsT, b \in IdsT}}
Summs == {[price |-> p, vis |-> v, hid |-> h, cnt |-> c] : p \in Atoms, v \in Atoms, h \in Atoms, c \in Atoms}
SmallOrders == {o \in Orders : o.price = "7" /\ o.ts = "1" /\ o.tif.t = "GTC" /\ o.side = "BUY" /\ o.id = "00000000-0000-0001-0000-000000000000"
                                /\ o.kind \in {"Standard", "IcebergOrder", "ReserveOrder"} /\ o.vis = "7"}
Levels == {[price |-> p, vis |-> v, hid |-> "0", cnt |-> c, orders |-> os] :
             p \in {"0", "7"}, v \in {"0", "7"}, c \in {"0", "7"},
             os \in {<<>>} \cup {<<a>> : a \in SmallOrders} \cup {<<a, b>> : a \in SmallOrders, b \in SmallOrders}}

Inj(D, F(_)) == Cardinality({F(v) : v \in D}) = Cardinality(D)

TextInjective ==
  /\ Inj(Tifs, TifText) /\ Inj(Orders, OrderText) /\ Inj(Updates, UpdateText) /\ Inj(Txs, TxText)
  /\ Inj(TxLists, TxListText) /\ Inj(Mres, MresText) /\ Inj(Summs, SummText) /\ Inj(Levels, LevelText)
JsonInjective ==
  /\ Inj(Tifs, TifJson) /\ Inj(Orders, OrderJson) /\ Inj(Updates, UpdateJson) /\ Inj(Txs, TxJson)
  /\ Inj(Mres, MresJson) /\ Inj(Levels, LevelJson)
Sizes == [orders |-> Cardinality(Orders), updates |-> Cardinality(Updates), txs |-> Cardinality(Txs), mres |-> Cardinality(Mres),
          levels |-> Cardinality(Levels), summs |-> Cardinality(Summs)]

VARIABLE x
Spec == x = 0 /\ [][UNCHANGED x]_x
Inv_Text == TextInjective
Inv_Json == JsonInjective
EmitSizes == PrintT(<<"SIZES", ToJson(Sizes)>>)
=============================================================================
