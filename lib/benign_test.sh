#!/bin/sh
# usage: benign_test.sh <patch.diff> <prop>... : behaviour-preserving refactorings must NOT raise an alarm
# (exit 0; DRIFT lines are expected where the step structure changed)
patch=$1; shift
cd /verif
rm -rf /verif/work/evidence.keep; cp -r /verif/evidence /verif/work/evidence.keep
git -C /repo apply $patch || { echo "patch does not apply"; exit 2; }
for p in "$@"; do
  ./check $p --tier quick > /verif/work/benign_$p.log 2>&1; rc=$?
  echo "=== $(basename $patch) $p rc=$rc : $(grep -E '^(OK|VIOLATION|TOOL)' /verif/work/benign_$p.log | head -1 | cut -c1-100) drift-lines=$(grep -c '^DRIFT' /verif/work/benign_$p.log)"
done
git -C /repo checkout -- .
rm -rf /verif/evidence; mv /verif/work/evidence.keep /verif/evidence
find /verif/replays -name '*.json' -delete
