------------------------------ MODULE Snapshot ------------------------------
(***************************************************************************)
(* Snapshots, checksummed packages and restore paths                       *)
(* (src/price_level/snapshot.rs, level.rs:40-68, 473-521).                 *)
(*                                                                         *)
(*  content  == [price, vis, hid, cnt, orders]   (orders: a sequence)      *)
(*  package  == [version, content, checksum]                               *)
(*  H(c)     the checksum of a content: SHA-256 over its JSON, modelled as *)
(*           an injective function (<<"H", c>>) - collision resistance is  *)
(*           the stated assumption.                                        *)
(*                                                                         *)
(* C09: Restore succeeds iff version is supported and checksum = H(content)*)
(*      so every content-changing fault is an error and a successful       *)
(*      restore yields the snapshotted content.                            *)
(* C10: every restore path yields the same book; aggregates are derived.   *)
(* C11: original and restored level answer every continuation alike,       *)
(*      except through the two listed deviations (listing by timestamp,    *)
(*      stale tickets).                                                    *)
(***************************************************************************)
EXTENDS LevelSeq

SupportedVersion == 1
H(c) == [h |-> c]

Sorted(os) == \A j, k \in DOMAIN os : j < k => os[j].ts <= os[k].ts

\* the possible listings of a level: its orders sorted by timestamp, ties in any order
Listings(sh) ==
  LET ids == Live(sh.qmap) IN
  {[k \in DOMAIN p |-> sh.qmap[p[k]]] : p \in {q \in SetToSeqs(ids) : Sorted([k \in DOMAIN q |-> sh.qmap[q[k]]])}}

SumSeqF(os, F(_)) == FoldFunctionOnSet(LAMBDA a, b : a + b, 0, [k \in DOMAIN os |-> F(os[k])], DOMAIN os)

Content(price, v, h, n, os) == [price |-> price, vis |-> v, hid |-> h, cnt |-> n, orders |-> os]
Refresh(c) == [c EXCEPT !.vis = SumSeqF(c.orders, Visible), !.hid = SumSeqF(c.orders, Hidden), !.cnt = Len(c.orders)]

\* PriceLevel::snapshot: three loads and the listing
TakeSnapshot(sh, listing) == Content(Price, sh.vis, sh.hid, sh.cnt, listing)
\* PriceLevelSnapshotPackage::new: refresh, then checksum
MkPackage(c) == LET r == Refresh(c) IN [version |-> SupportedVersion, content |-> r, checksum |-> H(r)]
Validate(p) == p.version = SupportedVersion /\ p.checksum = H(p.content)

\* from_snapshot / From<&Snapshot>: refresh, queue the listed orders in listed order
RestoreContent(c) == SharedFrom(Refresh(c).orders)

-----------------------------------------------------------------------------
(* structural faults on a package (C09) *)
Junk == H(Content(-1, 0, 0, 0, <<>>))       \* a checksum that is the checksum of no reachable content

Faults(p) ==
  LET n == Len(p.content.orders) IN
  {[f |-> "price"], [f |-> "version"], [f |-> "checksum"], [f |-> "agg", which |-> "vis"],
   [f |-> "agg", which |-> "hid"], [f |-> "agg", which |-> "cnt"]}
  \cup {[f |-> "ordvis", i |-> i] : i \in 1..n} \cup {[f |-> "ordts", i |-> i] : i \in 1..n}
  \cup {[f |-> "ordid", i |-> i] : i \in 1..n} \cup {[f |-> "ordside", i |-> i] : i \in 1..n}
  \cup {[f |-> "drop", i |-> i] : i \in 1..n} \cup {[f |-> "dup", i |-> i] : i \in 1..n}
  \cup {[f |-> "swap", i |-> i] : i \in 1..(n - 1)}

ApplyFault(p, x) ==
  LET os == p.content.orders IN
  CASE x.f = "price"    -> [p EXCEPT !.content.price = @ + 1]
    [] x.f = "version"  -> [p EXCEPT !.version = @ + 1]
    [] x.f = "checksum" -> [p EXCEPT !.checksum = Junk]
    [] x.f = "agg"      -> IF x.which = "vis" THEN [p EXCEPT !.content.vis = @ + 1]
                           ELSE IF x.which = "hid" THEN [p EXCEPT !.content.hid = @ + 1]
                           ELSE [p EXCEPT !.content.cnt = @ + 1]
    [] x.f = "ordvis"   -> [p EXCEPT !.content.orders[x.i].vis = @ + 1]
    [] x.f = "ordts"    -> [p EXCEPT !.content.orders[x.i].ts = @ + 1]
    [] x.f = "ordid"    -> [p EXCEPT !.content.orders[x.i].id = @ + 7]
    [] x.f = "ordside"  -> [p EXCEPT !.content.orders[x.i].side = Opposite(@)]
    [] x.f = "drop"     -> [p EXCEPT !.content.orders = RemoveAt(os, x.i)]
    [] x.f = "dup"      -> [p EXCEPT !.content.orders = InsertAt(os, x.i, os[x.i])]
    [] x.f = "swap"     -> [p EXCEPT !.content.orders = [os EXCEPT ![x.i] = os[x.i + 1], ![x.i + 1] = os[x.i]]]

-----------------------------------------------------------------------------
(* C10, one restore path applied to an observed level.  `carried` are the aggregate figures
   the external input claims (possibly lies); the result must not depend on them. *)
\* what C10 states: same price, same orders field for field, same (derived) aggregates
RestoredSame(pre, price2, post2) ==
  /\ price2 = Price
  /\ post2.qmap = pre.qmap                                   \* same set of orders, field for field
  /\ Mon_C01(post2)                                          \* aggregates derived from the orders
  /\ post2.vis = pre.vis /\ post2.hid = pre.hid /\ post2.cnt = pre.cnt
\* how the pinned code lays the restored queue out (not part of C10's statement: a deviation is model
\* drift; it matters for C11, where it decides whether the copy can be expected to trade alike)
RestoredQueue(pre, post2) ==
  /\ Len(post2.tickets) = Cardinality(Live(pre.qmap))        \* each order queued exactly once
  /\ Range(post2.tickets) = Live(pre.qmap)
  /\ Sorted([k \in DOMAIN post2.tickets |-> post2.qmap[post2.tickets[k]]])   \* queued in listing (timestamp) order
RestoredOk(pre, price2, post2, listing) == RestoredSame(pre, price2, post2) /\ RestoredQueue(pre, post2)

-----------------------------------------------------------------------------
(* C11: when is the restored level guaranteed to trade like the original?  When the original's
   effective arrival order is the listing order and it carries no stale ticket. *)
ForkFlags(orig, rest) ==
  [good      |-> RestoredOk(orig, Price, rest, <<>>),      \* the copy is a faithful restore at all
   sameOrder |-> LiveOrder(orig) = LiveOrder(rest),
   noStale   |-> ~HasDupTicket(orig) /\ ~HasStaleTicket(orig)]

\* results of the same call on both levels, as far as C11 speaks of them
SameResult(r1, r2) ==
  /\ r1.t = r2.t
  /\ CASE r1.t = "match" -> /\ MakerQty(r1.txs) = MakerQty(r2.txs) /\ r1.rem = r2.rem /\ r1.complete = r2.complete
                            /\ r1.filled = r2.filled
       [] r1.t = "some"  -> r1.o = r2.o
       [] r1.t = "read"  -> r1.vis = r2.vis /\ r1.hid = r2.hid /\ r1.cnt = r2.cnt
       [] r1.t \in {"list", "snapshot"} -> Len(r1.orders) = Len(r2.orders) /\ Range(r1.orders) = Range(r2.orders)
       [] OTHER -> TRUE

\* verdict for one lock-step call: {} ok | {"KF-C11-1"} | {"KF-C11-2"} | {"C11"}
\* `explained` = the model of the code predicts both real results
C11Verdict(flags, r1, r2, explained) ==
  IF SameResult(r1, r2) THEN {}
  ELSE IF ~explained \/ ~flags.good THEN {"C11"}
  ELSE IF ~flags.sameOrder THEN {"KF-C11-1"}
  ELSE IF ~flags.noStale THEN {"KF-C11-2"}
  ELSE {"C11"}
=============================================================================
