------------------------------- MODULE MCGrid -------------------------------
(***************************************************************************)
(* C05 on the specification: for every order of every kind and every       *)
(* incoming quantity of the grid, Orders!MatchAgainst satisfies the        *)
(* documented rule Orders!RuleC05.  Each grid point is one initial state.  *)
(***************************************************************************)
EXTENDS Orders, TLC
CONSTANTS MaxVis, MaxHid, MaxThr, Amts, MaxQ, BigHids

VARIABLES o, q
vars == <<o, q>>

Ord(kd, v, h, thr, amt, au) ==
  [id |-> 1, kind |-> kd, vis |-> v, hid |-> h, thr |-> thr, amt |-> amt, auto |-> au,
   ts |-> 7, side |-> "Sell", px |-> 100,
   par |-> IF kd = "TrailingStop" THEN "GTC|5|100" ELSE IF kd = "Pegged" THEN "GTC|-3|BestBid" ELSE "GTC"]

GridOrders ==
  {Ord(kd, v, 0, 0, -1, FALSE) : kd \in PlainKinds, v \in 0..MaxVis}
  \cup {Ord("Iceberg", v, h, 0, -1, FALSE) : v \in 0..MaxVis, h \in 0..MaxHid}
  \cup {Ord("Reserve", v, h, thr, amt, au) : v \in 0..MaxVis, h \in 0..MaxHid, thr \in 0..MaxThr, amt \in Amts, au \in BOOLEAN}
  \cup {Ord("Reserve", v, h, thr, -1, au) : v \in 0..2, h \in BigHids, thr \in 0..1, au \in BOOLEAN}   \* default amount 80
  \cup {Ord("Iceberg", v, h, 0, -1, FALSE) : v \in {1, 100}, h \in BigHids}

GridQs == 0..MaxQ \cup {90, 300}
Init == o \in GridOrders /\ q \in GridQs
Next == UNCHANGED vars
Spec == Init /\ [][Next]_vars

Inv_C05 == RuleC05(o, q, MatchAgainst(o, q))
(* the arms agree with the rule-independent facts used elsewhere in the specification *)
Inv_Shape == LET r == MatchAgainst(o, q) IN
             /\ r.c >= 0 /\ r.rem >= 0 /\ r.hr >= 0 /\ r.c + r.rem = q
             /\ IsOrder(r.upd) => r.upd.vis >= 0 /\ Hidden(r.upd) >= 0

AmtsDef == {-1, 0, 1, 2, 5}
=============================================================================
