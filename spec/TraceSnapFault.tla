--------------------------- MODULE TraceSnapFault ---------------------------
(***************************************************************************)
(* C09 on recorded restores of faulted package texts (harness `snap`).     *)
(* Each line is the outcome of the real from_snapshot_json /                *)
(* from_snapshot_package on one faulted text:  res in {ok, err, panic},    *)
(* same = (content of the restored level = content that was snapshotted).  *)
(* The specification (Snapshot.tla) says: Restore succeeds iff version is  *)
(* supported and checksum = H(content); hence                              *)
(*   - a restore that succeeds yields exactly the snapshotted content,     *)
(*   - every proper prefix is an error,                                    *)
(*   - every single structural edit of Snapshot!Faults is an error,        *)
(*   - content-preserving re-encodings still restore,                      *)
(*   - the outcome alphabet is {ok, err}: no panic,                        *)
(*   - and, line by line, Restore = ok  <=>  Snapshot!Validate of what the *)
(*     faulted text carries (parses, version, stored checksum = H(content) *)
(*     with H recomputed by the harness as SHA-256 over the content JSON). *)
(***************************************************************************)
EXTENDS Integers, Sequences, FiniteSets, TLC, Json, IOUtils, FiniteSetsExt

Rec == ndJsonDeserialize(IOEnv.TRACE)
Idx(kind) == {i \in DOMAIN Rec : Rec[i].k = kind}

\* Snapshot!Validate on what the faulted text says: it parses as a package, the version is the
\* supported one, and the stored checksum is H (SHA-256 of the JSON) of the content it carries
Valid(e) == e.pkg.parsed /\ e.pkg.ver = 1 /\ e.pkg.sum = e.pkg.hsum

LineOk(e) ==
  IF e.k = "pkg" THEN e.res = "ok" /\ e.same
  ELSE /\ e.res \in {"ok", "err"}
       /\ (e.res = "ok" <=> Valid(e))                  \* Restore succeeds iff the package is valid
       /\ (e.res = "ok" => e.same)
       /\ (e.trunc => e.res = "err")
       /\ (e.f \in {"struct", "structpkg"} => e.res = "err")
       /\ (e.f \in {"same-pretty", "same-alias"} => e.res = "ok" /\ e.same)

Bad == {i \in DOMAIN Rec : ~LineOk(Rec[i])}
Kinds == {Rec[i].f : i \in Idx("f")}
Summary == [lines |-> Len(Rec), packages |-> Cardinality(Idx("pkg")), faults |-> Cardinality(Idx("f")),
            bad |-> Cardinality(Bad), firstbad |-> IF Bad = {} THEN 0 ELSE Min(Bad),
            accepted |-> Cardinality({i \in Idx("f") : Rec[i].res = "ok"}),
            truncations |-> Cardinality({i \in Idx("f") : Rec[i].trunc}),
            kinds |-> Cardinality(Kinds)]
VARIABLE x
Spec == x = 0 /\ [][UNCHANGED x]_x
EmitSummary == PrintT(<<"SUMMARY", ToJson(Summary)>>)
=============================================================================
