#!/bin/sh
# Build the framework from files on disk only (offline).
set -e
cd "$(dirname "$0")"
export CARGO_NET_OFFLINE=true
cp /repo/Cargo.lock harness/Cargo.lock
(cd harness && cargo build --release --offline 2>&1 | tail -3)
mkdir -p work evidence replays
# the specification must parse
for m in Misc TraceMisc MCLive MatchResultMod TraceMres Orders Level LevelConc LevelSeq LevelSeqMC MCSeq Snapshot SnapMC Queue QueueSeqMC QueueConcMC Uuid Codec MCCodec MCGrid ApaEquiv TraceCommon TraceLevel TraceSeq TraceQueue TraceUuid TraceGrid TraceCodec TraceSnapFault MCTraceLevel MCTraceSeq; do
  (cd spec && java -cp /opt/veriftools/tla/tla2tools.jar:/opt/veriftools/tla/CommunityModules-deps.jar tla2sany.SANY $m.tla >/dev/null 2>&1) || { echo "SANY failed on $m"; exit 1; }
done
echo setup ok
./check selftest | tail -1
