------------------------------- MODULE ApaAgg -------------------------------
(***************************************************************************)
(* The aggregate arithmetic of one price level over ALL non-negative       *)
(* integers (Apalache), as an inductive step:                              *)
(*   if the counters equal (sum over the other orders) + (this order),     *)
(*   then after the level's arithmetic for one event on this order -       *)
(*   add, cancel, same-price amend, one match visit - they equal           *)
(*   (the same sum over the others) + (what this order now is),            *)
(*   nothing went below zero on the way, and nothing exceeds what was      *)
(*   there before plus what was supplied.                                  *)
(* This is the integer core of C01 / C12 for quantities TLC cannot hold.   *)
(* The per-order rule is ApaMatch!AMatch (tied to Orders.tla by ApaEquiv); *)
(* the counter updates are those of Level.tla's steps mv, mh, mv2, mc, mh2,*)
(* cv, ch, cc, uv, uh, a1..a3.                                             *)
(***************************************************************************)
EXTENDS ApaMatch

VARIABLES
  \* @type: Int;
  restV,     \* sum of displayed quantity of the OTHER resting orders
  \* @type: Int;
  restH,
  \* @type: Int;
  restN,
  \* @type: Int;
  newq       \* amend: requested displayed quantity

\* @type: ($ord) => Int;
AVis(x) == x.vis

InitAgg ==
  /\ Init
  /\ \E a \in Nat, b \in Nat, c \in Nat, n \in Nat :
       /\ restV = a /\ restH = b /\ restN = c /\ newq = n
       /\ a + o.vis <= U64MAX /\ b + AHid(o) <= U64MAX /\ n <= U64MAX
       \* precondition (total_quantity() = visible + hidden must itself fit): without it Apalache finds
       \* restV = 2^64-3, Reserve(2 shown, 3 hidden), match 1: the replenishment lifts visible above u64::MAX
       /\ a + b + o.vis + AHid(o) <= U64MAX
NextAgg == UNCHANGED <<o, q, restV, restH, restN, newq>>

V0 == restV + o.vis
H0 == restH + AHid(o)
N0 == restN + 1

\* ---- one match visit (q > 0): Level.tla mr / mv / mh / mv2 / mi, or mc / mh2 ----
VisitOk ==
  q > 0 =>
    LET r  == AMatch(o, q)
        v1 == V0 - r.c                                   \* mv: vis.fetch_sub(consumed)
    IN /\ v1 >= 0
       /\ IF r.some
          THEN LET h2 == H0 - r.hr                       \* mh: hid.fetch_sub(hidden_reduced)
                   v2 == v1 + r.hr                       \* mv2: vis.fetch_add(hidden_reduced)
               IN /\ h2 >= 0 /\ v2 <= U64MAX
                  /\ v2 = restV + r.uvis /\ h2 = restH + r.uhid      \* the others are untouched
          ELSE LET drop == IF o.kind \in AHiddenKinds /\ o.hid > 0 /\ r.hr = 0 THEN o.hid ELSE 0
                   h2 == H0 - drop                       \* mh2: leftover hidden of a leaving reserve
               IN /\ h2 >= 0 /\ v1 = restV /\ h2 = restH /\ N0 - 1 = restN

\* ---- cancel / move: cv, ch, cc ----
CancelOk == V0 - o.vis = restV /\ H0 - AHid(o) = restH /\ N0 - 1 = restN /\ V0 - o.vis >= 0 /\ H0 - AHid(o) >= 0

\* ---- same-price amend to newq (repaired tree: deltas from the removed order) ----
AmendOk ==
  LET nv == IF o.kind \in {"Standard", "PostOnly", "Iceberg"} THEN newq ELSE o.vis
      v2 == IF nv > o.vis THEN V0 + (nv - o.vis) ELSE V0 - (o.vis - nv)
  IN /\ v2 = restV + nv /\ v2 >= 0
     /\ H0 = restH + AHid(o)                             \* hidden never changes in an amend

\* ---- add: a1..a3 (counted before the order becomes reachable) ----
AddOk == restV + o.vis = V0 /\ restH + AHid(o) = H0 /\ restN + 1 = N0

InvAgg == VisitOk /\ CancelOk /\ AmendOk /\ AddOk
=============================================================================
