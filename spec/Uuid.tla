-------------------------------- MODULE Uuid --------------------------------
(***************************************************************************)
(* The transaction-id generator (src/utils/uuid.rs): a counter advanced by *)
(* ONE atomic fetch_add per call; the id is the name-based UUID (v5) of    *)
(* namespace and the decimal counter value, modelled as the pair           *)
(* <<namespace, n>> (v5 is assumed injective: SHA-1 collision resistance). *)
(*                                                                         *)
(* Property C14: all ids issued by one generator are pairwise distinct for *)
(* every interleaving; two generators with the same namespace issue the    *)
(* same id for the same call number.                                       *)
(* Split = TRUE replaces the fetch_add by a load followed by a store: the  *)
(* deliberately wrong variant that shows the uniqueness invariant is not   *)
(* vacuous (TLC must find the duplicate).                                  *)
(***************************************************************************)
EXTENDS Integers, Sequences, FiniteSets, TLC

CONSTANTS Threads, Calls, Namespaces, Split

VARIABLES counter,   \* [generator -> Nat], one generator per namespace instance
          ns,        \* [generator -> namespace]
          pc, left, tmp,
          issued     \* [generator -> Seq(id)] in order of the counter step

Gens == {1, 2}
vars == <<counter, ns, pc, left, tmp, issued>>

V5(n, k) == <<n, k>>

Init ==
  /\ counter = [g \in Gens |-> 0]
  /\ ns \in [Gens -> Namespaces]
  /\ pc = [t \in Threads |-> "idle"] /\ left = [t \in Threads |-> Calls] /\ tmp = [t \in Threads |-> 0]
  /\ issued = [g \in Gens |-> <<>>]

\* threads call generator 1 concurrently
FetchAdd(t) ==
  /\ ~Split /\ pc[t] = "idle" /\ left[t] > 0
  /\ issued' = [issued EXCEPT ![1] = Append(@, V5(ns[1], counter[1]))]
  /\ counter' = [counter EXCEPT ![1] = @ + 1]
  /\ left' = [left EXCEPT ![t] = @ - 1]
  /\ UNCHANGED <<ns, pc, tmp>>

Load(t) ==
  /\ Split /\ pc[t] = "idle" /\ left[t] > 0
  /\ tmp' = [tmp EXCEPT ![t] = counter[1]] /\ pc' = [pc EXCEPT ![t] = "store"]
  /\ UNCHANGED <<counter, ns, left, issued>>
Store(t) ==
  /\ Split /\ pc[t] = "store"
  /\ counter' = [counter EXCEPT ![1] = tmp[t] + 1]
  /\ issued' = [issued EXCEPT ![1] = Append(@, V5(ns[1], tmp[t]))]
  /\ pc' = [pc EXCEPT ![t] = "idle"] /\ left' = [left EXCEPT ![t] = @ - 1]
  /\ UNCHANGED <<ns, tmp>>

\* generator 2 is called sequentially (a replayed run)
Replay ==
  /\ Len(issued[2]) < Cardinality(Threads) * Calls
  /\ issued' = [issued EXCEPT ![2] = Append(@, V5(ns[2], counter[2]))]
  /\ counter' = [counter EXCEPT ![2] = @ + 1]
  /\ UNCHANGED <<ns, pc, left, tmp>>

Next == (\E t \in Threads : FetchAdd(t) \/ Load(t) \/ Store(t)) \/ Replay
Spec == Init /\ [][Next]_vars

Unique == \A g \in Gens : \A i, j \in DOMAIN issued[g] : i # j => issued[g][i] # issued[g][j]
\* same namespace => same id for the same call number
Reproducible == ns[1] = ns[2] => \A i \in DOMAIN issued[1] \cap DOMAIN issued[2] : issued[1][i] = issued[2][i]
\* the id of call number i is v5(namespace, i-1): what makes a replayed run reproduce its ids
ByNumber == \A g \in Gens : \A i \in DOMAIN issued[g] : issued[g][i] = V5(ns[g], i - 1)
=============================================================================
