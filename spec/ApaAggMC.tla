------------------------------ MODULE ApaAggMC ------------------------------
EXTENDS ApaAgg
ConstInit == U64MAX = 18446744073709551615
(* non-vacuity: forgetting the leftover hidden quantity of a leaving reserve order must be refuted *)
InvAggNeg ==
  q > 0 => LET r == AMatch(o, q) IN (~r.some) => (H0 = restH)
=============================================================================
