------------------------------ MODULE TraceMisc ------------------------------
(* Recorded results of the small pure operations of the crate against Misc.tla. *)
EXTENDS Misc, Json, IOUtils, FiniteSetsExt
Rec == ndJsonDeserialize(IOEnv.TRACE)

LineOk(e) ==
  CASE e.k = "tif" -> /\ e.imm = TifIsImmediate(e.t) /\ e.exp = TifHasExpiry(e.t)
                      /\ e.expired = TifIsExpired(e.t, e.now, e.close)
    [] e.k = "status" -> /\ e.active = StatusIsActive(e.s) /\ e.term = StatusIsTerminated(e.s)
                         /\ ~(e.active /\ e.term)
    [] e.k = "order" -> /\ e.imm = OrderIsImmediate(e.tif) /\ e.fok = OrderIsFok(e.tif) /\ e.postonly = OrderIsPostOnly(e.kind)
    [] e.k = "entry" -> /\ e.eprice = e.price /\ e.evis = e.vis /\ e.etot = e.vis + e.hid /\ e.ecnt = e.cnt
                        /\ e.ltot = e.vis + e.hid
    [] e.k = "cmp" -> /\ e.level_cmp = Cmp(e.p1, e.p2) /\ e.entry_cmp = Cmp(e.p1, e.p2)
                      /\ e.level_eq = (e.p1 = e.p2) /\ e.entry_eq = (e.p1 = e.p2)
    [] e.k = "tx" -> e.maker_side = Opp(e.side) /\ e.total = e.px * e.qty
    [] e.k = "mres" -> /\ e.exe = SumQty(e.txs) /\ e.val = SumValue(e.txs) /\ e.avg_none = (SumQty(e.txs) = 0)
    [] e.k = "stats" -> /\ e.after_reset = <<0, 0, 0, 0, 0>> /\ e.avg_none = (e.qty = 0) /\ e.wait_none = (e.exec = 0)
                        /\ e.since_none = (e.last = 0)
    [] OTHER -> FALSE

Bad == {i \in DOMAIN Rec : ~LineOk(Rec[i])}
Summary == [lines |-> Len(Rec), kinds |-> Cardinality({Rec[i].k : i \in DOMAIN Rec}), bad |-> Cardinality(Bad),
            firstbad |-> IF Bad = {} THEN 0 ELSE Min(Bad)]
VARIABLE x
Spec == x = 0 /\ [][UNCHANGED x]_x
EmitSummary == PrintT(<<"SUMMARY", ToJson(Summary)>>)
=============================================================================
