mod codec_drv;
mod grid_drv;
mod level_drv;
mod misc_drv;
mod model;
mod mres_drv;
mod queue_drv;
mod sched;
mod snap_drv;
mod uuid_drv;

use serde_json::Value;
use std::io::{BufRead, Write};

fn read_ndjson(path: &str) -> Vec<Value> {
    let f = std::fs::File::open(path).unwrap_or_else(|e| {
        eprintln!("cannot open {path}: {e}");
        std::process::exit(2)
    });
    std::io::BufReader::new(f).lines().map_while(Result::ok).filter(|l| !l.trim().is_empty()).map(|l| serde_json::from_str(&l).expect("bad scenario json")).collect()
}

fn write_lines(path: &str, lines: &[String]) {
    let mut f = std::io::BufWriter::new(std::fs::File::create(path).expect("create output"));
    for l in lines {
        writeln!(f, "{l}").unwrap();
    }
}

fn main() {
    if std::env::var("PLV_PANIC").is_err() {
        std::panic::set_hook(Box::new(|_| {}));
    }
    let args: Vec<String> = std::env::args().collect();
    if args.len() < 2 {
        eprintln!("usage: plv <level> <scenarios.ndjson> <trace.ndjson> [meta.json]");
        std::process::exit(2);
    }
    match args[1].as_str() {
        "level" => {
            let scs = read_ndjson(&args[2]);
            let (lines, meta) = level_drv::run_scenarios(&scs);
            write_lines(&args[3], &lines);
            if args.len() > 4 {
                std::fs::write(&args[4], serde_json::to_string(&meta).unwrap()).unwrap();
            }
        }
        "grid" => {
            let scs = read_ndjson(&args[2]);
            let mut lines = vec![];
            for sc in &scs {
                lines.extend(grid_drv::run(sc));
            }
            write_lines(&args[3], &lines);
            if args.len() > 4 {
                std::fs::write(&args[4], "[]").unwrap();
            }
        }
        "codec" => {
            let scs = read_ndjson(&args[2]);
            let mut lines = vec![];
            for sc in &scs {
                lines.extend(codec_drv::run(sc));
            }
            write_lines(&args[3], &lines);
            if args.len() > 4 {
                std::fs::write(&args[4], "[]").unwrap();
            }
        }
        "misc" => {
            let scs = read_ndjson(&args[2]);
            let mut lines = vec![];
            for sc in &scs {
                lines.extend(misc_drv::run(sc));
            }
            write_lines(&args[3], &lines);
            if args.len() > 4 {
                std::fs::write(&args[4], "[]").unwrap();
            }
        }
        "mres" => {
            let scs = read_ndjson(&args[2]);
            let mut lines = vec![];
            for sc in &scs {
                lines.extend(mres_drv::run(sc));
            }
            write_lines(&args[3], &lines);
            if args.len() > 4 {
                std::fs::write(&args[4], "[]").unwrap();
            }
        }
        "snap" => {
            let scs = read_ndjson(&args[2]);
            let mut lines = vec![];
            for (i, sc) in scs.iter().enumerate() {
                lines.extend(snap_drv::run(sc, i));
            }
            write_lines(&args[3], &lines);
            if args.len() > 4 {
                std::fs::write(&args[4], "[]").unwrap();
            }
        }
        "uuid" => {
            let scs = read_ndjson(&args[2]);
            let lines = uuid_drv::run_scenarios(&scs);
            write_lines(&args[3], &lines);
            if args.len() > 4 {
                std::fs::write(&args[4], "[]").unwrap();
            }
        }
        "queue" => {
            let scs = read_ndjson(&args[2]);
            let lines = queue_drv::run_scenarios(&scs);
            write_lines(&args[3], &lines);
            if args.len() > 4 {
                std::fs::write(&args[4], "[]").unwrap();
            }
        }
        x => {
            eprintln!("unknown driver {x}");
            std::process::exit(2);
        }
    }
}
