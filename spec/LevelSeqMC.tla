----------------------------- MODULE LevelSeqMC -----------------------------
(***************************************************************************)
(* Every single-threaded history of calls on one level, up to a bounded    *)
(* length, over a bounded alphabet of orders and calls.  One TLC step is   *)
(* one whole call (Level!RunCall on the micro-step semantics); each call   *)
(* is judged by LevelSeq!CallVerdict.                                      *)
(***************************************************************************)
EXTENDS LevelSeq, Json

CONSTANTS Shapes,       \* set of order templates [kind, vis, hid, thr, amt, auto, ts, side]
          MatchQs, AmendQs, MaxLen, Fuel,
          WithUpdates,  \* TRUE: also UpdatePrice / UpdatePriceAndQuantity / Replace
          EmitReplays,
          EmitEdges     \* TRUE: print the history of EVERY transition TLC generates (edge cover for replay)

VARIABLES sh, sg, chk, lastkf, hung, hist
vars == <<sh, sg, chk, lastkf, hung, hist>>

\* statistics / id counters and the cumulative accounting only ever move by deltas that do
\* not depend on their value, and nothing visible depends on them: hidden from the fingerprint
View == <<[sh EXCEPT !.st = EmptyStats, !.gen = 0], sg.gone, sg.allowed, chk, lastkf, hung, Len(hist)>>

Mk(s, i) == [id |-> i, kind |-> s.kind, vis |-> s.vis, hid |-> s.hid, thr |-> s.thr, amt |-> s.amt,
             auto |-> s.auto, ts |-> s.ts, side |-> s.side,
             \* the order's own price field is not validated by add_order: a shape may carry an offset
             px |-> IF "dpx" \in DOMAIN s THEN Price + s.dpx ELSE Price,
             par |-> IF s.kind = "TrailingStop" THEN "GTC|5|100" ELSE IF s.kind = "Pegged" THEN "GTC|-3|BestBid" ELSE "GTC"]

CallsFrom(s) ==
  {[op |-> "add", o |-> Mk(x, i)] : x \in Shapes, i \in Ids \ Live(s.qmap)}
  \cup {[op |-> "match", q |-> q, taker |-> 90] : q \in MatchQs}
  \cup {[op |-> "cancel", id |-> i] : i \in Ids}
  \cup {[op |-> "amend", id |-> i, q |-> q] : i \in Ids, q \in AmendQs}
  \cup {[op |-> "read"], [op |-> "list"], [op |-> "snapshot"]}
  \cup (IF WithUpdates
        THEN {[op |-> "move", id |-> i, p |-> p] : i \in Ids, p \in {Price, Price + 1}}
             \cup {[op |-> "upq", id |-> i, p |-> p, q |-> q] : i \in Ids, p \in {Price, Price + 1}, q \in AmendQs}
             \cup {[op |-> "replace", id |-> i, p |-> p, q |-> q, side |-> "Sell"] : i \in Ids, p \in {Price, Price + 1}, q \in AmendQs}
        ELSE {})

\* TLC (1.8) cannot write a lazily evaluated function to its disk queue unless fingerprinting has
\* evaluated it; the fields hidden by VIEW are never fingerprinted, so they are forced here
Force(g) == [g EXCEPT !.supplied = TLCEval(@), !.executed = TLCEval(@), !.back = TLCEval(@), !.disc = TLCEval(@),
                      !.gone = TLCEval(@), !.issued = TLCEval(@), !.allowed = TLCEval(@)]

Init == /\ sh = EmptyShared /\ sg = SeqGhostInit(EmptyMap)
        /\ chk = {} /\ lastkf = {} /\ hung = FALSE /\ hist = <<>>

ObsOf(x) == [vis |-> x.vis, hid |-> x.hid, cnt |-> x.cnt, orders |-> MapSeq(x.qmap),
            tickets |-> x.tickets, st |-> x.st, gen |-> x.gen]

Next ==
  /\ ~hung /\ Len(hist) < MaxLen
  /\ \E c \in CallsFrom(sh) :
       LET run == RunCall(sh, c, Fuel)
           r   == IF run.hang THEN [t |-> "hang"] ELSE run.me.ret
           v   == CallVerdict(sh, c, r, run.sh, sg, [ret |-> r, sh |-> run.sh, pre |-> sh])
       IN /\ sh' = run.sh /\ sg' = Force(v.sg) /\ chk' = v.bad /\ lastkf' = v.kf /\ hung' = run.hang
          /\ hist' = Append(hist, c)
          /\ (EmitEdges => PrintT(<<"EDGE", ToJson([calls |-> Append(hist, c), final |-> ObsOf(run.sh)])>>))

Spec == Init /\ [][Next]_vars

Inv_C01 == "C01" \notin chk
Inv_C02 == "C02" \notin chk
\* in the model of the code every surplus ticket is accounted for by a removal by id (non-vacuity of LegitTickets)
Inv_Legit == LegitTickets(sg, sh)
Inv_C04 == "C04" \notin chk          \* every deviation from the ideal order is one of the two named ones
Inv_C04raw == lastkf = {}            \* expected to FAIL: witnesses of D5 / D6
Inv_C04rawStale == "KF-C04-2" \notin lastkf
Inv_C06 == "C06" \notin chk /\ ~hung
Inv_C07 == "C07" \notin chk
Inv_C15 == "C15" \notin chk
\* structural: a resting order always has a ticket (sequentially there is no window)
Inv_C08seq == \A i \in Live(sh.qmap) : i \in Range(sh.tickets)

Obs == [vis |-> sh.vis, hid |-> sh.hid, cnt |-> sh.cnt, orders |-> MapSeq(sh.qmap),
        tickets |-> sh.tickets, st |-> sh.st, gen |-> sh.gen]
Inv_Emit == (EmitReplays /\ (Len(hist) = MaxLen \/ hung)) =>
              PrintT(<<"REPLAY", ToJson([calls |-> hist, final |-> Obs, kf |-> SetToSeq(lastkf)])>>)
=============================================================================
