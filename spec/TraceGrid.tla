------------------------------ MODULE TraceGrid ------------------------------
(***************************************************************************)
(* C05, implementation -> specification: every recorded call of the real   *)
(* OrderType::match_against on the grid must return exactly what           *)
(* Orders!MatchAgainst says and satisfy Orders!RuleC05; the recorded       *)
(* inputs must be exactly the grid TLC model-checked (MCGrid), so there is *)
(* one implementation test per model state.  Also with_reduced_quantity    *)
(* and refresh_iceberg against their transcriptions.                       *)
(***************************************************************************)
EXTENDS MCGrid, Json, IOUtils, FiniteSetsExt

Rec == ndJsonDeserialize(IOEnv.TRACE)
Of(kind) == {i \in DOMAIN Rec : Rec[i].k = kind}

\* the PROPERTY: the documented rule.  Equality with the transcription of the pinned code (MatchAgainst,
\* and the two helpers C05 does not speak of) is conformance: a mismatch there is drift.
MaOk(e) == RuleC05(e.o, e.q, e.r)
MaConf(e) == MatchAgainst(e.o, e.q) = e.r
WrOk(e) == WithReducedQuantity(e.o, e.n) = e.r
RiOk(e) == RefreshIceberg(e.o, e.n) = e.r
DriftMa == {i \in Of("ma") : ~MaConf(Rec[i])}

BadMa == {i \in Of("ma") : ~MaOk(Rec[i])}
BadWr == {i \in Of("wr") : ~WrOk(Rec[i])}
BadRi == {i \in Of("ri") : ~RiOk(Rec[i])}
Panics == Of("panic")
Inputs == {<<Rec[i].o, Rec[i].q>> : i \in Of("ma")}
Covered == Inputs = GridOrders \X GridQs

First(S) == IF S = {} THEN 0 ELSE Min(S)
Summary == [lines |-> Len(Rec), ma |-> Cardinality(Of("ma")), wr |-> Cardinality(Of("wr")), ri |-> Cardinality(Of("ri")),
            badma |-> Cardinality(BadMa), badwr |-> Cardinality(BadWr), badri |-> Cardinality(BadRi),
            panics |-> Cardinality(Panics), firstbad |-> First(BadMa \cup Panics),
            driftma |-> Cardinality(DriftMa), firstdrift |-> First(DriftMa \cup BadWr \cup BadRi),
            covered |-> Covered, grid |-> Cardinality(GridOrders \X GridQs)]
TInit == o = NoOrder /\ q = 0
TSpec == TInit /\ [][Next]_vars
EmitSummary == PrintT(<<"SUMMARY", ToJson(Summary)>>)
=============================================================================
