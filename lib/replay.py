"""./check <Cxx> --replay <file>: re-runs exactly the recorded scenario / input against the current tree
and reports whether the property's monitor still fails.   ./check selftest: demonstrates the binding."""
import json, os
from common import *
import level_checks, scen

MONS = {}
MONS.update(level_checks.CONC_MON)
MONS.update(level_checks.SEQ_MON)
MONS.update({"C10": {"C10"}, "C11": {"C11"}, "C19": {"C19", "PANIC"}})


def replay(prop, path):
    rp = json.load(open(path))["replay"]
    work = Work("replay")
    try:
        build_harness()
        drv = rp.get("driver", "level")
        if drv == "level":
            h = run_harness("level", [rp["scenario"]], work, "rp")
            seq = rp.get("spec") == "seq" or rp["scenario"].get("log") == "macro"
            s = tv(h["trace"], "MCTraceSeq" if seq else "MCTraceLevel", "TraceSeq" if seq else "TraceLevel", work)
            bad = [f for f in s["fails"] if f["mon"] in MONS.get(prop, {prop})]
        elif drv == "queue":
            h = run_harness("queue", [rp["scenario"]], work, "rp")
            s = tv(h["trace"], "TraceQueue", "TraceQueue", work)
            bad = [f for f in s["fails"] if f["mon"] in MONS.get(prop, {prop}) | {"C08"}]
        elif drv == "uuid":
            h = run_harness("uuid", [rp["scenario"]], work, "rp")
            s = tv(h["trace"], "TraceUuid", "TraceUuid", work)
            bad = s["fails"]
        elif drv == "snap":
            h = run_harness("snap", [rp["content"]], work, "rp")
            s = tv(h["trace"], "TraceSnapFault", "TraceSnapFault", work)
            bad = [s["firstbad"]] if s["bad"] else []
        elif drv == "grid":
            h = run_harness("grid", [{"nbig": 0}], work, "rp")
            small = work.path("small.ndjson")
            open(small, "w").write("".join(l for l in open(h["trace"]) if '"k":"mabig"' not in l))
            s = tv(small, "TraceGrid", "TraceGrid", work)
            bad = [s["firstbad"]] if (s["badma"] or s["badwr"] or s["badri"] or s["panics"]) else []
        elif drv == "codec":
            print("codec findings are re-run by ./check %s (inputs are generated from VERIF_SEED); offending input:" % prop)
            print(json.dumps(rp)[:1500])
            return 0
        else:
            raise ToolError("unknown replay kind")
        if bad:
            print("VIOLATION property=%s replay=%s" % (prop, path))
            print("  still fails: %s" % json.dumps(bad)[:300])
            return 1
        print("OK property=%s: the recorded scenario no longer violates the property (drifts: %d)" % (prop, len(s.get("drifts", []))))
        return 0
    finally:
        work.cleanup()


def selftest():
    """the trace specification must reject a corrupted recording (binding, not vacuity)"""
    work = Work("selftest")
    try:
        build_harness()
        sc = scen.harness_level_scenario({"init": scen.BOOK3, "progs": [[scen.Match(4)], [scen.Amend(1, 1), scen.Cancel(2)]]},
                                         {"mode": "random", "seed": 3, "runs": 2})
        h = run_harness("level", [sc], work, "base")
        s = tv(h["trace"], "MCTraceLevel", "TraceLevel", work)
        ok = not s["fails"] and not s["drifts"] and s["ops"] > 20
        print("selftest: clean recording accepted: %s (%d events)" % (ok, s["lines"]))
        lines = open(h["trace"]).read().splitlines()
        ops = [i for i, l in enumerate(lines) if '"k":"op"' in l and '"o":"vis"' in l]
        results = []
        # (a) corrupt one logged result
        l2 = list(lines)
        d = json.loads(l2[ops[0]]); d["r"] = d["r"] + 1; l2[ops[0]] = json.dumps(d)
        results.append(("corrupted result", l2, ops[0] + 1, None))
        # (b) delete one event
        l3 = list(lines); del l3[ops[0]]
        results.append(("deleted event", l3, ops[0] + 1, None))
        # (c) an impossible aggregate
        l4 = list(lines)
        d = json.loads(l4[ops[-1]]); d["a"][0] = -5; l4[ops[-1]] = json.dumps(d)
        results.append(("negative aggregate", l4, ops[-1] + 1, "C12"))
        for name, ls, at, mon in results:
            p = work.path(name.replace(" ", "_") + ".ndjson")
            open(p, "w").write("\n".join(ls) + "\n")
            try:
                r = tv(p, "MCTraceLevel", "TraceLevel", work)
                drift_at = [x["line"] for x in r["drifts"]]
                good = any(abs(x - at) <= 1 for x in drift_at) and (mon is None or any(f["mon"] == mon for f in r["fails"]))
            except ToolError:
                good = True     # the recording is not even self-consistent: rejected
                drift_at = ["rejected"]
            print("selftest: %s at line %d -> drift at %s: %s" % (name, at, drift_at[:3], "detected" if good else "NOT DETECTED"))
            ok = ok and good
        # sequential grain
        hs = scen.seq_scenario([scen.Add(scen.S(1, 5)), scen.Add(scen.I(2, 2, 3)), scen.Match(6), scen.Cancel(2)])
        h2 = run_harness("level", [hs], work, "seq")
        ls = open(h2["trace"]).read().splitlines()
        k = [i for i, l in enumerate(ls) if '"op":"match"' in l][0]
        d = json.loads(ls[k]); d["r"]["rem"] += 1; ls[k] = json.dumps(d)
        p = work.path("seqbad.ndjson"); open(p, "w").write("\n".join(ls) + "\n")
        r = tv(p, "MCTraceSeq", "TraceSeq", work)
        good = any(f["mon"] == "C02" for f in r["fails"]) and r["drifts"]
        print("selftest: corrupted remaining quantity of a recorded match -> C02 monitor and drift: %s" % ("detected" if good else "NOT DETECTED"))
        ok = ok and good
        print("selftest %s" % ("passed" if ok else "FAILED"))
        return 0 if ok else 2
    finally:
        work.cleanup()


def extra():
    """specification growth beyond the listed properties (spec/Misc.tla): not a MANIFEST check"""
    work = Work("extra")
    try:
        build_harness()
        h = run_harness("misc", [{"n": 300, "seed": seed()}], work, "misc")
        s = tv(h["trace"], "TraceMisc", "TraceMisc", work)
        print("extra: %d recorded results of %d kinds of small operations checked against Misc.tla, %d disagree" % (s["lines"], s["kinds"], s["bad"]))
        if s["bad"]:
            print("  first: %s" % json.dumps(read_trace_lines(h["trace"])[s["firstbad"] - 1])[:400])
            return 1
        return 0
    finally:
        work.cleanup()
