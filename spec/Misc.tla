-------------------------------- MODULE Misc --------------------------------
(***************************************************************************)
(* Growth of the specification beyond the listed properties: the small     *)
(* pure operations of the crate, each with its recorded counterpart        *)
(* validated by TraceMisc.tla (harness driver `misc`).                     *)
(*   time_in_force.rs   is_immediate / has_expiry / is_expired             *)
(*   status.rs          is_active / is_terminated                          *)
(*   order_type.rs      is_immediate / is_fill_or_kill / is_post_only      *)
(*   entry.rs, level.rs OrderBookEntry projections; Eq / Ord by price      *)
(*   transaction.rs     maker_side / total_value                           *)
(*   match_result.rs    executed_quantity / executed_value / average_price *)
(*   statistics.rs      reset; average_* are None iff nothing executed     *)
(***************************************************************************)
EXTENDS Integers, Sequences, FiniteSets, TLC

\* tif == [t |-> "GTC"|"IOC"|"FOK"|"DAY"|"GTD", n |-> expiry (GTD only)]
TifIsImmediate(t) == t.t \in {"IOC", "FOK"}
TifHasExpiry(t)   == t.t \in {"GTD", "DAY"}
\* close = -1 encodes "no market close given"
TifIsExpired(t, now, close) ==
  CASE t.t = "GTD" -> now >= t.n
    [] t.t = "DAY" -> close # -1 /\ now >= close
    [] OTHER -> FALSE

Statuses == {"NEW", "ACTIVE", "PARTIALLYFILLED", "FILLED", "CANCELED", "REJECTED", "EXPIRED"}
StatusIsActive(s)     == s \in {"ACTIVE", "PARTIALLYFILLED"}
StatusIsTerminated(s) == s \in {"FILLED", "CANCELED", "REJECTED", "EXPIRED"}

OrderIsImmediate(tif)  == TifIsImmediate(tif)
OrderIsFok(tif)        == tif.t = "FOK"
OrderIsPostOnly(kind)  == kind = "PostOnly"

Cmp(a, b) == IF a < b THEN "Less" ELSE IF a = b THEN "Equal" ELSE "Greater"

Opp(s) == IF s = "BUY" THEN "SELL" ELSE "BUY"
SumQty(txs)   == LET RECURSIVE F(_) F(k) == IF k = 0 THEN 0 ELSE txs[k].qty + F(k - 1) IN F(Len(txs))
SumValue(txs) == LET RECURSIVE F(_) F(k) == IF k = 0 THEN 0 ELSE txs[k].qty * txs[k].px + F(k - 1) IN F(Len(txs))
=============================================================================
