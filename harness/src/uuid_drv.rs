//! C14: threads call the real `UuidGenerator::next` under the baton scheduler.

use crate::level_drv::{Out, Pct, Random};
use crate::model::sint;
use crate::sched::*;
use pricelevel::verif_shim::Event;
use pricelevel::*;
use serde_json::{json, Value};
use std::collections::HashMap;
use std::sync::{Arc, Mutex};

fn namespace(s: &str) -> uuid::Uuid {
    match s {
        "nil" => uuid::Uuid::nil(),
        "dns" => uuid::Uuid::NAMESPACE_DNS,
        "max" => uuid::Uuid::max(),
        x => uuid::Uuid::parse_str(x).unwrap_or(uuid::Uuid::NAMESPACE_OID),
    }
}

fn run_once(sched: &Arc<Sched>, sc: &Value, sc_ix: usize, run_ix: usize, out: &Arc<Out>, chooser: &mut dyn Chooser) -> (Vec<Vec<usize>>, Vec<usize>) {
    let ns = namespace(sc["ns"].as_str().unwrap_or("nil"));
    let counts: Vec<usize> = sc["threads"].as_array().map(|a| a.iter().map(|x| x.as_u64().unwrap_or(1) as usize).collect()).unwrap_or_else(|| vec![1, 1]);
    let total: usize = counts.iter().sum();
    // the counter can be positioned anywhere through the public serde form of the generator
    let start: u64 = sc["start"].as_str().and_then(|x| x.parse().ok()).or_else(|| sc["start"].as_u64()).unwrap_or(0);
    // a fresh generator comes from the public constructor (unless the scenario asks for the serde form)
    let via_serde = start != 0 || sc["ctor"].as_str() == Some("serde");
    let mk = || -> UuidGenerator {
        if via_serde {
            serde_json::from_value(json!({"namespace": ns, "counter": start})).unwrap_or_else(|_| UuidGenerator::new(ns))
        } else {
            UuidGenerator::new(ns)
        }
    };
    let gen = Arc::new(mk());
    let goid = gen.verif_counter().1;
    // oracle: the id of counter value n is v5(namespace, decimal rendering of n)
    let oracle = move |n: u64| uuid::Uuid::new_v5(&ns, n.to_string().as_bytes());
    let mut table = HashMap::new();
    for k in 0..(total as u64 + 8) {
        table.insert(oracle(start.wrapping_add(k)), k as i64);
    }
    let table = Arc::new(table);
    out.push(json!({"k": "reset", "sc": sc_ix, "run": run_ix, "n": counts.len(), "ns": ns.to_string(), "start": start.to_string()}));
    let after: Arc<AfterFn> = {
        let (gen, out) = (gen.clone(), out.clone());
        Arc::new(move |w: usize, ev: &Event, res: &str| {
            let lab = if ev.oid == goid { "gen" } else { "unknown" };
            out.push(json!({"k": "op", "t": w + 1, "o": lab, "op": ev.op, "v": ev.arg.parse::<u64>().map(sint).unwrap_or(0),
                            "r": res.parse::<u64>().map(|x| sint(x.wrapping_sub(start))).unwrap_or(0), "g": sint(gen.verif_counter().0.wrapping_sub(start))}));
        })
    };
    sched.set_after(Some(after));
    let jobs: Vec<Job> = counts
        .iter()
        .enumerate()
        .map(|(w, &k)| {
            let (gen, out, table, sched2) = (gen.clone(), out.clone(), table.clone(), sched.clone());
            Box::new(move || {
                for _ in 0..k {
                    out.push(json!({"k": "call", "t": w + 1}));
                    let id = gen.next();
                    let ix = table.get(&id).copied().unwrap_or(-1);
                    let exp = if ix >= 0 { oracle(start.wrapping_add(ix as u64)).to_string() } else { String::new() };
                    out.push(json!({"k": "ret", "t": w + 1, "id": ix, "raw": id.to_string(), "exp": exp}));
                    sched2.note_call_done(w);
                }
            }) as Job
        })
        .collect();
    let rec = Arc::new(Mutex::new((vec![], vec![])));
    let mut wrap = Recorder { inner: chooser, rec: rec.clone() };
    sched.run(jobs, std::cmp::max(10_000, total * 4 + 1_000), &mut wrap);
    sched.set_after(None);
    // a second generator with the same namespace, called sequentially the same number of times
    let gen2 = mk();
    let seq2: Vec<Value> = (0..total).map(|_| { let id = gen2.next(); json!({"id": table.get(&id).copied().unwrap_or(-1), "raw": id.to_string()}) }).collect();
    // a third generator, used sequentially like the second: "two generators with the same namespace issue the
    // same ids for the same number of calls" is judged on the raw ids of these two and of the concurrent run
    let gen3 = mk();
    let seq3: Vec<Value> = (0..total).map(|_| json!(gen3.next().to_string())).collect();
    // a generator positioned at counter c through its serde form is a generator that has made c calls: by
    // reproducibility its first c ids are those of a fresh generator with the same namespace, and by uniqueness
    // none of them may come again - so the ids of this run must be disjoint from the first ids of a fresh one
    let early: Vec<Value> = if start >= (total as u64) + 8 {
        let fresh = UuidGenerator::new(ns);
        (0..total + 8).map(|_| json!(fresh.next().to_string())).collect()
    } else {
        vec![]
    };
    out.push(json!({"k": "end", "counter": sint(gen.verif_counter().0.wrapping_sub(start)), "gen2": seq2, "gen3": seq3, "early": early, "total": total}));
    let g = rec.lock().unwrap().clone();
    g
}

struct Recorder<'a> {
    inner: &'a mut dyn Chooser,
    rec: Arc<Mutex<(Vec<Vec<usize>>, Vec<usize>)>>,
}
impl Chooser for Recorder<'_> {
    fn choose(&mut self, runnable: &[usize], p: &[Option<Pending>], last: Option<usize>) -> usize {
        let c = self.inner.choose(runnable, p, last);
        let mut g = self.rec.lock().unwrap();
        g.0.push(runnable.to_vec());
        g.1.push(c);
        c
    }
}

struct Prefix {
    prefix: Vec<usize>,
    pos: usize,
}
impl Chooser for Prefix {
    fn choose(&mut self, runnable: &[usize], _p: &[Option<Pending>], last: Option<usize>) -> usize {
        let c = if self.pos < self.prefix.len() && runnable.contains(&self.prefix[self.pos]) {
            self.prefix[self.pos]
        } else {
            match last {
                Some(l) if runnable.contains(&l) => l,
                _ => runnable[0],
            }
        };
        self.pos += 1;
        c
    }
}

pub fn run_scenarios(scs: &[Value]) -> Vec<String> {
    let sched = Sched::new();
    pricelevel::verif_shim::set_hook(Some(sched.clone()));
    let out = Arc::new(Out { lines: Mutex::new(vec![]) });
    for (ix, sc) in scs.iter().enumerate() {
        let sd = &sc["sched"];
        match sd["mode"].as_str().unwrap_or("all") {
            "starve" => {
                let n = sc["threads"].as_array().map(|a| a.len()).unwrap_or(1);
                for v in 0..n {
                    let mut ch = Starve { sched: sched.clone(), victim: v, other: None, next_other: 0, victim_turn: true };
                    run_once(&sched, sc, ix, v, &out, &mut ch);
                }
            }
            "random" | "pct" => {
                let runs = sd["runs"].as_u64().unwrap_or(1) as usize;
                let mut rng = Rng(sd["seed"].as_u64().unwrap_or(1) ^ ((ix as u64) << 20));
                for r in 0..runs {
                    let mut rg = Rng(rng.next());
                    if sd["mode"] == "pct" {
                        let n = sc["threads"].as_array().map(|a| a.len()).unwrap_or(1);
                        let mut ch = Pct::new(n, 3, 12, &mut rg);
                        run_once(&sched, sc, ix, r, &out, &mut ch);
                    } else {
                        let mut ch = Random { rng: rg };
                        run_once(&sched, sc, ix, r, &out, &mut ch);
                    }
                }
            }
            _ => {
                // every interleaving of the real code at its own hook points (bounded by `max`)
                let max = sd["max"].as_u64().unwrap_or(2000) as usize;
                let mut stack: Vec<Vec<usize>> = vec![vec![]];
                let mut run_ix = 0;
                while let Some(prefix) = stack.pop() {
                    if run_ix >= max {
                        break;
                    }
                    let mut ch = Prefix { prefix: prefix.clone(), pos: 0 };
                    let (alts, taken) = run_once(&sched, sc, ix, run_ix, &out, &mut ch);
                    run_ix += 1;
                    for i in (prefix.len()..taken.len()).rev() {
                        for &a in &alts[i] {
                            if a != taken[i] {
                                let mut child: Vec<usize> = taken[..i].to_vec();
                                child.push(a);
                                stack.push(child);
                            }
                        }
                    }
                }
            }
        }
    }
    pricelevel::verif_shim::set_hook(None);
    let lines = std::mem::take(&mut *out.lines.lock().unwrap());
    lines
}
