----------------------------- MODULE TraceQueue -----------------------------
(***************************************************************************)
(* Trace validation for the exported OrderQueue (micro grain, same scheme  *)
(* as TraceLevel): conformance = the model (Queue!QStep1) produces the     *)
(* logged event and state; monitors = C19 per call on single-threaded      *)
(* executions (FIFO ghost), C08 cover / exactly-once on all executions;    *)
(* "build" lines check the construction paths (from a list, text, JSON).   *)
(***************************************************************************)
EXTENDS Queue, Json, IOUtils

Rec == ndJsonDeserialize(IOEnv.TRACE)
Has(r, f) == f \in DOMAIN r

VARIABLES l, sh, th, ob, g, gc, ex, sum,
          pure     \* the model run from the start of the execution on the observed calls, never re-anchored:
                   \* what the queue of the pinned design would hold (known findings are judged against it)
vars == <<l, sh, th, ob, g, gc, ex, sum, pure>>

QmapOf(os) == [i \in Ids |-> IF \E k \in DOMAIN os : os[k].id = i
                             THEN os[CHOOSE k \in DOMAIN os : os[k].id = i] ELSE NoOrder]
ObsOf(st) == [qmap |-> QmapOf(st.orders), tickets |-> st.tickets]

MaxFails == 20
MaxPerMon == 6
AddFails(s, fs) ==
  \* the first failure of each monitor per execution, at most MaxPerMon executions per monitor
  \* (a cap over all monitors together would let a noisy monitor hide the others)
  LET new == {f \in fs : /\ ~\E h \in s.fails : h.mon = f.mon /\ h.sc = f.sc /\ h.run = f.run
                         /\ Cardinality({h \in s.fails : h.mon = f.mon}) < MaxPerMon} IN
  [s EXCEPT !.fails = @ \cup new]
Fail(mon, line) == [mon |-> mon, line |-> line, sc |-> ex.sc, run |-> ex.run]

Init ==
  /\ l = 1 /\ sh = QEmpty /\ ob = QEmpty /\ th = <<>> /\ pure = QEmpty
  /\ g = QGhostInit(<<>>) /\ gc = QConcInit({}, QEmpty)
  /\ ex = [sc |-> -1, run |-> -1, drift |-> 0, single |-> FALSE, pre |-> QEmpty, call |-> <<>>]
  /\ sum = [execs |-> 0, ops |-> 0, calls |-> 0, builds |-> 0, seqjudged |-> 0, drifts |-> {}, fails |-> {}, kf |-> {}]

Line == Rec[l]

InitialOrder(o) ==    \* order of the initial tickets (from_vec pushes in list order)
  [k \in DOMAIN o.tickets |-> o.qmap[o.tickets[k]]]

DoReset ==
  /\ Line.k = "reset"
  /\ LET o == ObsOf(Line.st) IN
     /\ sh' = o /\ ob' = o /\ pure' = o
     /\ th' = [t \in 1..Line.n |-> QIdle]
     /\ g' = [fifo |-> o.tickets, content |-> o.qmap]
     /\ gc' = QConcInit(1..Line.n, o)
     /\ ex' = [sc |-> Line.sc, run |-> Line.run, drift |-> 0, single |-> (Line.n = 2), pre |-> o,
               call |-> [t \in 1..Line.n |-> [op |-> "none"]]]
     /\ sum' = [sum EXCEPT !.execs = @ + 1]

DoCall ==
  /\ Line.k = "call"
  /\ LET t == Line.t IN
     /\ th' = IF ex.drift = 0 /\ th[t].pc = "idle" THEN [th EXCEPT ![t] = QBegin(th[t], Line.c)] ELSE th
     /\ gc' = QConcCall(gc, t, Line.c)
     /\ ex' = [ex EXCEPT !.pre = ob, !.call[t] = Line.c]
  /\ UNCHANGED <<sh, ob, g, sum, pure>>

ObAfter(o, e) ==
  LET o2 == IF Has(e, "m") THEN [o EXCEPT !.qmap = QmapOf(e.m)] ELSE o
  IN IF Has(e, "q") THEN [o2 EXCEPT !.tickets = e.q] ELSE o2

EvEq(m, e) == m.o = e.o /\ m.op = e.op /\ m.v = e.v /\ m.r = e.r

DoOp ==
  /\ Line.k = "op"
  /\ LET t  == Line.t
         o2 == ObAfter(ob, Line)
         g2 == QConcOp(gc, t, Line)
         stepping == ex.drift = 0 /\ th[t].pc # "idle"
         n  == QStep1(sh, th[t])
         ok == IF stepping THEN EvEq(n.ev, Line) /\ n.sh = o2 ELSE ex.drift # 0
     IN /\ ob' = o2 /\ gc' = g2
        /\ IF stepping /\ ok THEN sh' = n.sh /\ th' = [th EXCEPT ![t] = n.me] ELSE UNCHANGED <<sh, th>>
        /\ ex' = IF ok THEN ex ELSE [ex EXCEPT !.drift = l]
        /\ sum' = AddFails([sum EXCEPT !.ops = @ + 1,
                                        !.drifts = IF ok \/ Cardinality(@) >= MaxFails THEN @ ELSE @ \cup {[line |-> l, sc |-> ex.sc, run |-> ex.run]}],
                           IF QMon_cover(o2, g2) THEN {} ELSE {Fail("C08", l)})
  /\ UNCHANGED <<g, pure>>

RetEq(m, r) ==
  /\ m.t = r.t
  /\ CASE r.t = "some" -> m.o = r.o
       [] r.t = "int"  -> m.n = r.n
       [] r.t = "bool" -> m.b = r.b
       [] r.t = "list" -> Len(m.orders) = Len(r.orders) /\ Range(m.orders) = Range(r.orders)
       [] OTHER -> TRUE

SortedByTs(os) == \A j, k \in DOMAIN os : j < k => os[j].ts <= os[k].ts

DoRet ==
  /\ Line.k = "ret"
  /\ LET t  == Line.t
         r  == Line.r
         c  == ex.call[t]
         g2 == QConcRet(gc, t, r)
         predicted == ex.drift = 0 /\ th[t].pc = "idle" /\ RetEq(th[t].ret, r)
                      /\ (r.t = "list" => SortedByTs(r.orders))      \* listings sorted by timestamp: the pinned code
         \* single-threaded: the model runs the whole call from the observed pre-state (robust
         \* against a different order of the steps inside the call)
         \* single-threaded: the pinned design runs the whole call from ITS state (robust against a
         \* different order of the steps inside the call, and not fooled by stale tickets that only
         \* the code under test leaves behind)
         prun  == QRun(pure, c, 50)
         macro == ~prun.hang /\ RetEq(prun.me.ret, r)
         v  == IF ex.single /\ t = 1 THEN QVerdict(g, c, r, macro, QHasStale(pure)) ELSE {}
         extra == (IF r.t = "panic" THEN {"PANIC"} ELSE {})
                  \cup (IF g2.bad # {} THEN {"C08"} ELSE {})
     IN /\ gc' = g2
        /\ g' = IF ex.single /\ t = 1 THEN QGhostNext(g, c, r) ELSE g
        /\ th' = [th EXCEPT ![t] = QIdle]
        /\ pure' = IF ex.single /\ t = 1 /\ ~prun.hang THEN prun.sh ELSE pure
        /\ ex' = IF predicted \/ ex.drift # 0 THEN ex ELSE [ex EXCEPT !.drift = l]
        /\ sum' = AddFails([sum EXCEPT !.calls = @ + 1,
                                        !.seqjudged = IF ex.single /\ t = 1 THEN @ + 1 ELSE @,
                                        !.kf = @ \cup (v \ {"C19"}),
                                        !.drifts = IF predicted \/ ex.drift # 0 \/ Cardinality(@) >= MaxFails THEN @
                                                   ELSE @ \cup {[line |-> l, sc |-> ex.sc, run |-> ex.run]}],
                           {Fail(m, l) : m \in (v \cap {"C19"}) \cup extra})
  /\ UNCHANGED <<sh, ob>>

DoEnd ==
  /\ Line.k = "end"
  /\ LET o2 == ObsOf(Line.st) IN
     sum' = AddFails(sum, (IF o2 = ob THEN {} ELSE {Fail("TOOL", l)})
                          \cup (IF Line.drained /\ ~QMon_drained(o2, gc) THEN {Fail("C08", l)} ELSE {}))
  /\ UNCHANGED <<sh, th, ob, g, gc, ex, pure>>

(* construction paths.  C19 states: "yields a queue with the same orders" (and the listing shows each
   once).  How the built queue is laid out (one ticket per element, list order for from_vec, timestamp
   order for the text form) and that listings are sorted by timestamp is the pinned code: conformance. *)
BuildOk(b) ==
  LET want == QFrom(b.input)
      got  == ObsOf(b.st) IN
  /\ b.ok
  /\ got.qmap = want.qmap
  /\ Len(b.list) = Cardinality(QLive(want.qmap)) /\ Range(b.list) = {want.qmap[i] : i \in QLive(want.qmap)}
BuildConf(b) ==
  LET want == QFrom(b.input)
      got  == ObsOf(b.st) IN
  /\ Len(got.tickets) = Len(b.input) /\ Range(got.tickets) = Range(want.tickets)
  /\ (b.via \in {"from_vec", "from"} => got.tickets = want.tickets)
  /\ (b.via = "text" => SortedByTs([k \in DOMAIN got.tickets |-> got.qmap[got.tickets[k]]]))
  /\ SortedByTs(b.list)

DoBuild ==
  /\ Line.k = "build"
  /\ sum' = LET s2 == [sum EXCEPT !.builds = @ + 1] IN
            IF ~BuildOk(Line) THEN AddFails(s2, {[mon |-> "C19", line |-> l, sc |-> Line.sc, run |-> 0]})
            ELSE IF BuildConf(Line) \/ Cardinality(s2.drifts) >= MaxFails THEN s2
            ELSE [s2 EXCEPT !.drifts = @ \cup {[line |-> l, sc |-> Line.sc, run |-> 0]}]
  /\ UNCHANGED <<sh, th, ob, g, gc, ex, pure>>

Next == /\ l <= Len(Rec) /\ l' = l + 1 /\ (DoReset \/ DoCall \/ DoOp \/ DoRet \/ DoEnd \/ DoBuild)
Spec == Init /\ [][Next]_vars
Done == l = Len(Rec) + 1
Summary == [lines |-> Len(Rec), execs |-> sum.execs, ops |-> sum.ops, calls |-> sum.calls, builds |-> sum.builds,
            seqjudged |-> sum.seqjudged, drifts |-> SetToSeq(sum.drifts), fails |-> SetToSeq(sum.fails), kf |-> SetToSeq(sum.kf)]
EmitSummary == Done => PrintT(<<"SUMMARY", ToJson(Summary)>>)
TraceIds == 1..16
=============================================================================
