//! Executes scenarios against the exported `OrderQueue` under the baton scheduler
//! (spec/Queue.tla, spec/TraceQueue.tla).

use crate::level_drv::{Fixed, Out, Pct, Random};
use crate::model::*;
use crate::sched::*;
use pricelevel::verif_shim::Event;
use pricelevel::*;
use serde_json::{json, Value};
use std::collections::HashMap;
use std::str::FromStr;
use std::sync::{Arc, Mutex};

fn q_orders_json(q: &OrderQueue) -> Value {
    let mut os: Vec<Arc<OrderType<()>>> = q.verif_orders();
    os.sort_by_key(|o| id_num(&o.id()));
    Value::Array(os.iter().map(|o| order_json(o)).collect())
}
fn q_tickets_json(q: &OrderQueue) -> Value {
    Value::Array(q.verif_tickets().iter().map(|i| json!(id_num(i))).collect())
}
fn q_state(q: &OrderQueue) -> Value {
    json!({"orders": q_orders_json(q), "tickets": q_tickets_json(q)})
}

fn opt_json(o: Option<Arc<OrderType<()>>>) -> Value {
    match o {
        Some(o) => json!({"t": "some", "o": order_json(&o)}),
        None => json!({"t": "none"}),
    }
}

fn do_call(q: &OrderQueue, c: &Value) -> Value {
    match c["op"].as_str().unwrap_or("") {
        "push" => {
            q.push(Arc::new(order_of(&c["o"])));
            json!({"t": "unit"})
        }
        "pop" => opt_json(q.pop()),
        "find" => opt_json(q.find(oid_of(c["id"].as_u64().unwrap_or(0)))),
        "remove" => opt_json(q.remove(oid_of(c["id"].as_u64().unwrap_or(0)))),
        "len" => json!({"t": "int", "n": q.len()}),
        "is_empty" => json!({"t": "bool", "b": q.is_empty()}),
        "to_vec" => json!({"t": "list", "orders": q.to_vec().iter().map(|o| order_json(o)).collect::<Vec<_>>()}),
        _ => json!({"t": "badcall"}),
    }
}

fn key_table() -> HashMap<String, i64> {
    let mut g = HashMap::new();
    for n in 0..64u64 {
        g.insert(format!("{:?}", oid_of(n)), n as i64);
    }
    g
}

fn run_once(sched: &Arc<Sched>, sc: &Value, sc_ix: usize, run_ix: usize, out: &Arc<Out>, chooser: &mut dyn Chooser) {
    let init: Vec<Arc<OrderType<()>>> = sc["init"].as_array().cloned().unwrap_or_default().iter().map(|o| Arc::new(order_of(o))).collect();
    let q = Arc::new(OrderQueue::from_vec(init));
    let (moid, toid) = q.verif_oids();
    let progs: Vec<Vec<Value>> = sc["threads"].as_array().map(|a| a.iter().map(|p| p.as_array().cloned().unwrap_or_default()).collect()).unwrap_or_default();
    let n = progs.len();
    out.push(json!({"k": "reset", "sc": sc_ix, "run": run_ix, "n": n + 1, "st": q_state(&q)}));
    let keys = Arc::new(key_table());
    let prev = Arc::new(Mutex::new(q_orders_json(&q)));
    let after: Arc<AfterFn> = {
        let (q, out, keys, prev) = (q.clone(), out.clone(), keys.clone(), prev.clone());
        Arc::new(move |w: usize, ev: &Event, res: &str| {
            let lab = if ev.oid == moid {
                "map"
            } else if ev.oid == toid {
                "tickets"
            } else {
                "unknown"
            };
            let mut line = json!({"k": "op", "t": w + 1, "o": lab, "op": ev.op});
            if lab == "map" {
                let now = if ev.op == "get_mut" { prev.lock().unwrap().clone() } else { q_orders_json(&q) };
                let key = *keys.get(&ev.arg).unwrap_or(&-1);
                let find = |m: &Value| -> Value { m.as_array().and_then(|a| a.iter().find(|o| o["id"].as_i64() == Some(key)).cloned()).unwrap_or_else(no_order) };
                let mut pm = prev.lock().unwrap();
                match ev.op {
                    "insert" => {
                        line["v"] = find(&now);
                        line["r"] = find(&pm);
                        line["m"] = now.clone();
                    }
                    "remove" => {
                        line["v"] = json!(key);
                        line["r"] = if res == "true" { find(&pm) } else { no_order() };
                        line["m"] = now.clone();
                    }
                    "get" | "get_mut" => {
                        line["v"] = json!(key);
                        line["r"] = if res == "true" { find(&now) } else { no_order() };
                    }
                    "iter" | "len" | "is_empty" => {
                        line["v"] = json!(0);
                        line["r"] = json!(0);
                    }
                    _ => {
                        line["v"] = json!(0);
                        line["r"] = json!(0);
                        line["m"] = now.clone();
                    }
                }
                *pm = now;
            } else {
                line["q"] = q_tickets_json(&q);
                line["v"] = json!(if ev.op == "push" { *keys.get(&ev.arg).unwrap_or(&-1) } else { 0 });
                line["r"] = json!(if ev.op == "pop" { ev_pop(&keys, res) } else { 0 });
            }
            out.push(line);
        })
    };
    sched.set_after(Some(after));
    let mk_job = |w: usize, prog: Vec<Value>, until_none: bool| -> Job {
        let (q, out, sched2) = (q.clone(), out.clone(), sched.clone());
        Box::new(move || {
            let mut i = 0;
            loop {
                let c = if until_none {
                    json!({"op": "pop"})
                } else if i < prog.len() {
                    prog[i].clone()
                } else {
                    break;
                };
                i += 1;
                if c["op"] == "push" {
                    // quantifier of C19 / C08: ids pushed once, or re-pushed after removal
                    let id = oid_of(c["o"]["id"].as_u64().unwrap_or(0));
                    if unregistered(|| q.verif_orders().iter().any(|x| x.id() == id)) {
                        continue;
                    }
                }
                sched2.reset_steps(w);
                out.push(json!({"k": "call", "t": w + 1, "c": crate::level_drv::canon_call(&c)}));
                let r = std::panic::catch_unwind(std::panic::AssertUnwindSafe(|| do_call(&q, &c)));
                let rv = match r {
                    Ok(v) => v,
                    Err(_) => json!({"t": "panic"}),
                };
                let stop = rv["t"] == "panic" || (until_none && rv["t"] == "none") || i > 200;
                out.push(json!({"k": "ret", "t": w + 1, "r": rv}));
                if stop {
                    break;
                }
            }
        })
    };
    let jobs: Vec<Job> = progs.iter().cloned().enumerate().map(|(w, p)| mk_job(w, p, false)).collect();
    sched.run(jobs, 400, chooser);
    if sc["drain"].as_bool().unwrap_or(false) {
        let jobs: Vec<Job> = (0..=n).map(|w| if w == n { mk_job(w, vec![], true) } else { mk_job(w, vec![], false) }).collect();
        let mut ch = Random { rng: Rng(1) };
        sched.run(jobs, 4000, &mut ch);
    }
    sched.set_after(None);
    out.push(json!({"k": "end", "st": q_state(&q), "drained": sc["drain"].as_bool().unwrap_or(false)}));
}

fn ev_pop(keys: &HashMap<String, i64>, dbg: &str) -> i64 {
    if let Some(inner) = dbg.strip_prefix("Some(").and_then(|s| s.strip_suffix(')')) {
        *keys.get(inner).unwrap_or(&-1)
    } else {
        0
    }
}

/// Construction paths (C19, last sentence): from a list, from the text form, from the JSON form.
fn build_line(sc: &Value, sc_ix: usize) -> Value {
    let input: Vec<Arc<OrderType<()>>> = sc["input"].as_array().cloned().unwrap_or_default().iter().map(|o| Arc::new(order_of(o))).collect();
    let via = sc["via"].as_str().unwrap_or("from_vec");
    let r = std::panic::catch_unwind(|| -> Result<OrderQueue, String> {
        match via {
            "from" => Ok(OrderQueue::from(input.clone())),
            "text" => {
                let src = OrderQueue::from_vec(input.clone());
                OrderQueue::from_str(&src.to_string()).map_err(|e| e.to_string())
            }
            "json" => {
                let src = OrderQueue::from_vec(input.clone());
                let s = serde_json::to_string(&src).map_err(|e| e.to_string())?;
                serde_json::from_str::<OrderQueue>(&s).map_err(|e| e.to_string())
            }
            _ => Ok(OrderQueue::from_vec(input.clone())),
        }
    });
    let canon: Vec<Value> = input.iter().map(|o| order_json(o)).collect();
    match r {
        Ok(Ok(q)) => json!({"k": "build", "sc": sc_ix, "via": via, "input": canon, "ok": true, "st": q_state(&q),
                            "list": q.to_vec().iter().map(|o| order_json(o)).collect::<Vec<_>>()}),
        Ok(Err(e)) => json!({"k": "build", "sc": sc_ix, "via": via, "input": canon, "ok": false, "err": e}),
        Err(_) => json!({"k": "build", "sc": sc_ix, "via": via, "input": canon, "ok": false, "err": "panic"}),
    }
}

pub fn run_scenarios(scs: &[Value]) -> Vec<String> {
    let sched = Sched::new();
    pricelevel::verif_shim::set_hook(Some(sched.clone()));
    let out = Arc::new(Out { lines: Mutex::new(vec![]) });
    for (ix, sc) in scs.iter().enumerate() {
        // input corners (see model.rs): timestamps shifted by an offset, ids in the ULID format
        TSOFF.store(sc["tsoff"].as_str().and_then(|x| x.parse::<u64>().ok()).or(sc["tsoff"].as_u64()).unwrap_or(0), std::sync::atomic::Ordering::Relaxed);
        ULID_IDS.store(sc["ulid"].as_bool().unwrap_or(false), std::sync::atomic::Ordering::Relaxed);
        TWIN_IDS.store(sc["twins"].as_bool().unwrap_or(false), std::sync::atomic::Ordering::Relaxed);
        if sc.get("via").is_some() {
            out.push(build_line(sc, ix));
            continue;
        }
        let sd = &sc["sched"];
        match sd["mode"].as_str().unwrap_or("fixed") {
            "random" | "pct" => {
                let runs = sd["runs"].as_u64().unwrap_or(1) as usize;
                let mut rng = Rng(sd["seed"].as_u64().unwrap_or(1) ^ ((ix as u64) << 20));
                for r in 0..runs {
                    let mut rg = Rng(rng.next());
                    if sd["mode"] == "pct" {
                        let n = sc["threads"].as_array().map(|a| a.len()).unwrap_or(1);
                        let mut ch = Pct::new(n, 2, 20, &mut rg);
                        run_once(&sched, sc, ix, r, &out, &mut ch);
                    } else {
                        let mut ch = Random { rng: rg };
                        run_once(&sched, sc, ix, r, &out, &mut ch);
                    }
                }
            }
            _ => {
                let seq: Vec<usize> = sd["seq"].as_array().map(|a| a.iter().map(|x| (x.as_u64().unwrap_or(1) as usize).saturating_sub(1)).collect()).unwrap_or_default();
                let labels = Arc::new(Labels { by_oid: HashMap::new() });
                let mut ch = Fixed { seq, pos: 0, skip_stats: false, labels };
                run_once(&sched, sc, ix, 0, &out, &mut ch);
            }
        }
    }
    pricelevel::verif_shim::set_hook(None);
    let lines = std::mem::take(&mut *out.lines.lock().unwrap());
    lines
}
