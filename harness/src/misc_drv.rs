//! Small pure operations of the crate (spec/Misc.tla, spec/TraceMisc.tla).
use crate::model::*;
use crate::sched::Rng;
use pricelevel::*;
use serde_json::{json, Value};
use std::sync::Arc;

fn tif_v(t: &TimeInForce) -> Value {
    match t {
        TimeInForce::Gtc => json!({"t": "GTC", "n": 0}),
        TimeInForce::Ioc => json!({"t": "IOC", "n": 0}),
        TimeInForce::Fok => json!({"t": "FOK", "n": 0}),
        TimeInForce::Day => json!({"t": "DAY", "n": 0}),
        TimeInForce::Gtd(n) => json!({"t": "GTD", "n": n}),
    }
}

fn cmp_s(o: std::cmp::Ordering) -> &'static str {
    match o {
        std::cmp::Ordering::Less => "Less",
        std::cmp::Ordering::Equal => "Equal",
        std::cmp::Ordering::Greater => "Greater",
    }
}

pub fn run(sc: &Value) -> Vec<String> {
    let mut out = vec![];
    let mut rng = Rng(sc["seed"].as_u64().unwrap_or(1));
    let n = sc["n"].as_u64().unwrap_or(50);
    let tifs = |r: &mut Rng| match r.below(5) {
        0 => TimeInForce::Gtc,
        1 => TimeInForce::Ioc,
        2 => TimeInForce::Fok,
        3 => TimeInForce::Day,
        _ => TimeInForce::Gtd(r.range(0, 20)),
    };
    for _ in 0..n * 4 {
        let t = tifs(&mut rng);
        let now = rng.range(0, 20);
        let close: i64 = if rng.chance(1, 3) { -1 } else { rng.range(0, 20) as i64 };
        let expired = t.is_expired(now, if close < 0 { None } else { Some(close as u64) });
        out.push(json!({"k": "tif", "t": tif_v(&t), "now": now, "close": close, "imm": t.is_immediate(), "exp": t.has_expiry(), "expired": expired}).to_string());
    }
    for s in [OrderStatus::New, OrderStatus::Active, OrderStatus::PartiallyFilled, OrderStatus::Filled, OrderStatus::Canceled, OrderStatus::Rejected, OrderStatus::Expired] {
        out.push(json!({"k": "status", "s": s.to_string(), "active": s.is_active(), "term": s.is_terminated()}).to_string());
    }
    for i in 0..n {
        let kd = ["Standard", "Iceberg", "PostOnly", "TrailingStop", "Pegged", "MarketToLimit", "Reserve"][(i % 7) as usize];
        let mut o = order_of(&json!({"id": 1, "kind": kd, "vis": 3, "hid": 0, "ts": 1}));
        let t = tifs(&mut rng);
        // rebuild with the chosen time in force through the text form (public API only)
        let txt = o.to_string().replace("time_in_force=GTC", &format!("time_in_force={t}"));
        if let Ok(o2) = txt.parse::<OrderType<()>>() {
            o = o2;
        }
        let kind = order_json(&o)["kind"].clone();
        out.push(json!({"k": "order", "kind": kind, "tif": tif_v(&o.time_in_force()), "imm": o.is_immediate(), "fok": o.is_fill_or_kill(), "postonly": o.is_post_only()}).to_string());
    }
    for _ in 0..n {
        let p1 = rng.range(0, 6);
        let p2 = rng.range(0, 6);
        let l1 = Arc::new(PriceLevel::new(p1));
        let l2 = Arc::new(PriceLevel::new(p2));
        let k = rng.range(0, 3);
        for i in 0..k {
            let (kd, hid) = if i % 2 == 0 { ("Iceberg", rng.range(0, 9)) } else { ("Standard", 0) };
            let vis = rng.range(0, 9);
            l1.add_order(order_of(&json!({"id": i + 1, "kind": kd, "vis": vis, "hid": hid, "ts": i, "px": p1})));
        }
        let e1 = OrderBookEntry::new(l1.clone(), 0);
        let e2 = OrderBookEntry::new(l2.clone(), 1);
        out.push(json!({"k": "entry", "price": p1, "vis": sint(l1.visible_quantity()), "hid": sint(l1.hidden_quantity()), "cnt": l1.order_count(),
                        "eprice": e1.price(), "evis": sint(e1.visible_quantity()), "etot": sint(e1.total_quantity()), "ecnt": e1.order_count(),
                        "ltot": sint(l1.total_quantity())}).to_string());
        out.push(json!({"k": "cmp", "p1": p1, "p2": p2, "level_cmp": cmp_s((*l1).cmp(&*l2)), "entry_cmp": cmp_s(e1.cmp(&e2)),
                        "level_eq": *l1 == *l2, "entry_eq": e1 == e2}).to_string());
    }
    for _ in 0..n {
        let side = if rng.chance(1, 2) { Side::Buy } else { Side::Sell };
        let (px, qty) = (rng.range(0, 1000), rng.range(0, 1000));
        let t = Transaction::new(uuid::Uuid::nil(), oid_of(1), oid_of(2), px, qty, side);
        out.push(json!({"k": "tx", "side": side.to_string(), "px": px, "qty": qty, "maker_side": t.maker_side().to_string(), "total": t.total_value()}).to_string());
        let mut m = MatchResult::new(oid_of(9), 100);
        let k = rng.range(0, 4);
        let mut txs = vec![];
        for _ in 0..k {
            let (p, q) = (rng.range(1, 50), rng.range(0, 20));
            m.add_transaction(Transaction::new(uuid::Uuid::nil(), oid_of(9), oid_of(2), p, q, side));
            txs.push(json!({"px": p, "qty": q}));
        }
        out.push(json!({"k": "mres", "txs": txs, "exe": m.executed_quantity(), "val": m.executed_value(), "avg_none": m.average_price().is_none()}).to_string());
        let st = PriceLevelStatistics::new();
        for _ in 0..rng.range(0, 3) {
            st.record_order_added();
        }
        for _ in 0..rng.range(0, 2) {
            st.record_execution(rng.range(0, 9), 100, rng.range(0, 2));
        }
        let (qty, exec, last) = (st.quantity_executed(), st.orders_executed(), st.last_execution_time.peek());
        let (a, w, s) = (st.average_execution_price().is_none(), st.average_waiting_time().is_none(), st.time_since_last_execution().is_none());
        st.reset();
        out.push(json!({"k": "stats", "qty": qty, "exec": exec, "last": if last == 0 { 0 } else { 1 }, "avg_none": a, "wait_none": w, "since_none": s,
                        "after_reset": [st.orders_added(), st.orders_removed(), st.orders_executed(), st.quantity_executed() as usize, st.value_executed() as usize]}).to_string());
    }
    out
}
