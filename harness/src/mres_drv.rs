//! C02, last sentence: MatchResult::new / add_transaction / add_filled_order_id driven directly.
use crate::model::*;
use crate::sched::Rng;
use pricelevel::*;
use serde_json::{json, Value};

fn obs(m: &MatchResult) -> Value {
    let exe = std::panic::catch_unwind(|| m.executed_quantity()).map(sint).unwrap_or(-CLAMP);
    let val = std::panic::catch_unwind(|| m.executed_value()).map(sint).unwrap_or(-CLAMP);
    json!({"rem": sint(m.remaining_quantity), "complete": m.is_complete, "exe": exe, "val": val,
           "ntx": m.transactions.len(), "nfilled": m.filled_order_ids.len()})
}

pub fn run(sc: &Value) -> Vec<String> {
    let mut out = vec![];
    let mut rng = Rng(sc["seed"].as_u64().unwrap_or(1));
    let mut cases: Vec<(u64, Vec<Value>)> = vec![];
    for c in sc["cases"].as_array().cloned().unwrap_or_default() {
        cases.push((c["init"].as_u64().unwrap_or(0), c["ops"].as_array().cloned().unwrap_or_default()));
    }
    for _ in 0..sc["random"].as_u64().unwrap_or(0) {
        let init = rng.range(0, 40);
        let n = rng.range(0, 8);
        let ops = (0..n).map(|_| if rng.chance(1, 4) { json!({"op": "filled"}) } else { json!({"op": "tx", "qty": rng.range(0, 15)}) }).collect();
        cases.push((init, ops));
    }
    for (init, ops) in cases {
        let mut m = MatchResult::new(oid_of(90), init);
        let new = obs(&m);
        let mut steps = vec![];
        let mut observed = vec![];
        for o in ops {
            if o["op"] == "tx" {
                let q = o["qty"].as_u64().unwrap_or(0);
                m.add_transaction(Transaction::new(uuid::Uuid::nil(), oid_of(90), oid_of(1), 100, q, Side::Buy));
                steps.push(json!({"op": "tx", "qty": q, "px": 100}));
            } else {
                m.add_filled_order_id(oid_of(1));
                steps.push(json!({"op": "filled", "qty": 0, "px": 0}));
            }
            observed.push(obs(&m));
        }
        out.push(json!({"k": "mres", "init": init, "new": new, "steps": steps, "obs": observed}).to_string());
    }
    out
}
