-------------------------------- MODULE Level --------------------------------
(***************************************************************************)
(* One price level (src/price_level/level.rs + order_queue.rs +            *)
(* statistics.rs + utils/uuid.rs) at the grain of individual operations    *)
(* on its shared objects:                                                  *)
(*                                                                         *)
(*   vis, hid, cnt   the three aggregate atomics                           *)
(*   qmap            DashMap id -> order        ("map")                    *)
(*   tickets         SegQueue of ids            ("tickets")                *)
(*   st              statistics counters added/removed/exec/qty/val        *)
(*   gen             counter of the shared transaction-id generator        *)
(*                                                                         *)
(* ONE SEMANTICS, TWO GRAINS.  Step1(sh, me) performs exactly one shared   *)
(* operation of the thread whose local state is `me`, followed by the      *)
(* thread-local computation up to its next shared operation, and returns   *)
(* the new shared state, the new local state and the EVENT the real code   *)
(* emits through the verification shim for that operation (object, op,     *)
(* argument, result).  The concurrent specification interleaves Step; the  *)
(* sequential one runs a call to completion with RunCall (fuel bounded:    *)
(* running out of fuel is the explicit outcome "hang").  Conformance is    *)
(* event equality, line by line (TraceLevel.tla).                          *)
(*                                                                         *)
(* The ghost state `gh` is driven by events only (call / op / ret), never  *)
(* by model internals, so the very same definitions monitor the model      *)
(* (TLC exhaustive) and recorded executions of the real code.              *)
(***************************************************************************)
EXTENDS Orders, SequencesExt, FiniteSetsExt, Functions, TLC

CONSTANTS
  Ids,                   \* order ids (positive integers)
  Price,                 \* the level's price
  StatsMicro,            \* TRUE: every statistics operation is its own step
  StatsCount,            \* FALSE: statistics steps leave the counters alone (liveness checking needs a finite graph)
  DevAmendStaleLookup,   \* TRUE = defect D3: amend takes old quantities from the lookup
  DevZeroDisplaySpin,    \* TRUE = defect D4: no set-aside, match re-queues a zero-display order forever
  DevStatsOwnPrice       \* TRUE = defect D9: executions are booked at the maker's own price field, not the level's

-----------------------------------------------------------------------------
(* Small helpers *)

SumF(f, S) == FoldFunctionOnSet(LAMBDA a, b : a + b, 0, f, S)
SumSeq(s)  == FoldFunctionOnSet(LAMBDA a, b : a + b, 0, s, DOMAIN s)

Live(qm)     == {i \in DOMAIN qm : IsOrder(qm[i])}
SumVis(qm)   == SumF([i \in Live(qm) |-> qm[i].vis], Live(qm))
SumHid(qm)   == SumF([i \in Live(qm) |-> Hidden(qm[i])], Live(qm))
MapSeq(qm)   == LET ids == SetToSortSeq(Live(qm), <) IN [k \in DOMAIN ids |-> qm[ids[k]]]
EmptyMap     == [i \in Ids |-> NoOrder]

Ev(o, op, v, r) == [o |-> o, op |-> op, v |-> v, r |-> r]

EmptyStats == [added |-> 0, removed |-> 0, exec |-> 0, qty |-> 0, val |-> 0]
EmptyShared == [vis |-> 0, hid |-> 0, cnt |-> 0, qmap |-> EmptyMap, tickets |-> <<>>,
                st |-> EmptyStats, gen |-> 0]

(* Shared state of a level holding the orders of sequence `os` queued in that order
   (what from_snapshot / From<&Snapshot> build). *)
SharedFrom(os) ==
  LET qm == [i \in Ids |-> IF \E k \in DOMAIN os : os[k].id = i
                           THEN os[CHOOSE k \in DOMAIN os : os[k].id = i /\ \A j \in DOMAIN os : os[j].id = i => j <= k]
                           ELSE NoOrder]
  IN [EmptyShared EXCEPT !.qmap = qm, !.tickets = [k \in DOMAIN os |-> os[k].id],
                         !.vis = SumVis(qm), !.hid = SumHid(qm), !.cnt = Cardinality(Live(qm))]

-----------------------------------------------------------------------------
(* Calls *)

IsRemovalCall(c) == \/ c.op = "cancel"
                    \/ c.op \in {"move", "upq", "replace"} /\ c.p # Price
IsAmendCall(c)   == \/ c.op = "amend"
                    \/ c.op \in {"upq", "replace"} /\ c.p = Price
IsErrorCall(c)   == c.op = "move" /\ c.p = Price

RetNone  == [t |-> "none"]
RetErr   == [t |-> "err"]
RetSome(o) == [t |-> "some", o |-> o]

IdleLocal == [pc |-> "idle", call |-> [op |-> "none"], rem |-> 0, id |-> 0, cur |-> NoOrder,
              found |-> NoOrder, res |-> MR(0, NoOrder, 0, 0), nw |-> NoOrder, ov |-> 0, oh |-> 0,
              txs |-> <<>>, filled |-> <<>>, aside |-> <<>>, lv |-> 0, lh |-> 0, lc |-> 0,
              ret |-> [t |-> "nil"]]

Return(me, r) == [me EXCEPT !.pc = "idle", !.ret = r]

MatchRet(me) ==
  [t |-> "match", taker |-> me.call.taker, rem |-> me.rem, complete |-> (me.rem = 0),
   txs |-> me.txs, filled |-> me.filled,
   exe |-> SumSeq([k \in DOMAIN me.txs |-> me.txs[k].qty])]

(* The thread starts `call`: pure thread-local step, no shared access. *)
Begin(me, c) ==
  LET m == [IdleLocal EXCEPT !.call = c] IN
  CASE c.op = "add"        -> [m EXCEPT !.pc = "a1"]
    [] c.op = "match"      -> IF c.q > 0 THEN [m EXCEPT !.pc = "mp", !.rem = c.q]
                                         ELSE Return([m EXCEPT !.rem = 0], MatchRet([m EXCEPT !.rem = 0]))
    [] IsErrorCall(c)      -> Return(m, RetErr)
    [] IsRemovalCall(c)    -> [m EXCEPT !.pc = "cr", !.id = c.id]
    [] IsAmendCall(c)      -> [m EXCEPT !.pc = "ug", !.id = c.id]
    [] c.op = "read"       -> [m EXCEPT !.pc = "r1"]
    [] c.op = "list"       -> [m EXCEPT !.pc = "l1"]
    [] c.op = "snapshot"   -> [m EXCEPT !.pc = "s1"]

-----------------------------------------------------------------------------
(* match_order control flow between shared operations *)

MatchFinish(me) ==          \* the loop is over: re-queue set-aside orders, then return
  IF me.aside # <<>> THEN [me EXCEPT !.pc = "sa_i"] ELSE Return(me, MatchRet(me))
LoopHead(me) ==             \* `if remaining == 0 { break }` / `while remaining > 0`
  IF me.rem = 0 THEN MatchFinish(me) ELSE [me EXCEPT !.pc = "mp"]
AfterStats(me) ==           \* after record_execution
  IF IsOrder(me.res.upd) THEN [me EXCEPT !.pc = IF me.res.hr > 0 THEN "mh" ELSE "mi"]
                         ELSE [me EXCEPT !.pc = "mc"]

Tx(me, txid) == [maker |-> me.id, qty |-> me.res.c, px |-> Price, taker |-> me.call.taker,
                 tside |-> Opposite(me.cur.side), txid |-> txid]

-----------------------------------------------------------------------------
(* One shared operation.  Result: [sh, me, ev]. *)
R(sh, me, ev) == [sh |-> sh, me |-> me, ev |-> ev]

Step1(sh, me) ==
  LET c == me.call IN
  CASE
  (* ---- add_order: level.rs:115-134, order_queue.rs:33-37 ---- *)
     me.pc = "a1" -> R([sh EXCEPT !.vis = @ + c.o.vis], [me EXCEPT !.pc = "a2"],
                       Ev("vis", "fetch_add", c.o.vis, sh.vis))
  [] me.pc = "a2" -> R([sh EXCEPT !.hid = @ + Hidden(c.o)], [me EXCEPT !.pc = "a3"],
                       Ev("hid", "fetch_add", Hidden(c.o), sh.hid))
  [] me.pc = "a3" -> R([sh EXCEPT !.cnt = @ + 1], [me EXCEPT !.pc = "a4"],
                       Ev("cnt", "fetch_add", 1, sh.cnt))
  [] me.pc = "a4" -> R([sh EXCEPT !.st.added = @ + 1], [me EXCEPT !.pc = "a5"],
                       Ev("st_added", "fetch_add", 1, sh.st.added))
  [] me.pc = "a5" -> R([sh EXCEPT !.qmap[c.o.id] = c.o], [me EXCEPT !.pc = "a6"],
                       Ev("map", "insert", c.o, sh.qmap[c.o.id]))
  [] me.pc = "a6" -> R([sh EXCEPT !.tickets = Append(@, c.o.id)], Return(me, RetSome(c.o)),
                       Ev("tickets", "push", c.o.id, 0))

  (* ---- match_order: level.rs:161-249, order_queue.rs:40-52 ---- *)
  [] me.pc = "mp" ->
       IF sh.tickets = <<>>
       THEN R(sh, MatchFinish(me), Ev("tickets", "pop", 0, 0))
       ELSE R([sh EXCEPT !.tickets = Tail(@)], [me EXCEPT !.pc = "mr", !.id = Head(sh.tickets)],
              Ev("tickets", "pop", 0, Head(sh.tickets)))
  [] me.pc = "mr" ->
       LET o == sh.qmap[me.id] IN
       IF ~IsOrder(o)
       THEN R(sh, [me EXCEPT !.pc = "mp"], Ev("map", "remove", me.id, NoOrder))   \* stale ticket
       ELSE LET res == MatchAgainst(o, me.rem)
                m1  == [me EXCEPT !.cur = o, !.res = res]
                m2  == IF ~DevZeroDisplaySpin /\ res.c = 0 /\ IsOrder(res.upd) /\ res.hr = 0
                       THEN [m1 EXCEPT !.aside = Append(@, res.upd), !.pc = "mp"]    \* set aside, `continue`
                       ELSE [m1 EXCEPT !.rem = res.rem, !.pc = IF res.c > 0 THEN "mv" ELSE "ms1"]
            IN R([sh EXCEPT !.qmap[me.id] = NoOrder], m2, Ev("map", "remove", me.id, o))
  [] me.pc = "mv" -> R([sh EXCEPT !.vis = @ - me.res.c], [me EXCEPT !.pc = "mg"],
                       Ev("vis", "fetch_sub", me.res.c, sh.vis))
  [] me.pc = "mg" -> R([sh EXCEPT !.gen = @ + 1],
                       [me EXCEPT !.pc = "ms1", !.txs = Append(@, Tx(me, sh.gen)),
                                  !.filled = IF IsOrder(me.res.upd) THEN @ ELSE Append(@, me.id)],
                       Ev("gen", "fetch_add", 1, sh.gen))
  [] me.pc = "ms1" -> R([sh EXCEPT !.st.exec = @ + 1], [me EXCEPT !.pc = "ms2"],
                        Ev("st_exec", "fetch_add", 1, sh.st.exec))
  [] me.pc = "ms2" -> R([sh EXCEPT !.st.qty = @ + me.res.c], [me EXCEPT !.pc = "ms3"],
                        Ev("st_qty", "fetch_add", me.res.c, sh.st.qty))
  [] me.pc = "ms3" -> LET bookpx == IF DevStatsOwnPrice THEN me.cur.px ELSE Price IN      \* D9, repaired: the level's price
                      R([sh EXCEPT !.st.val = @ + me.res.c * bookpx], [me EXCEPT !.pc = "ms4"],
                        Ev("st_val", "fetch_add", me.res.c * bookpx, sh.st.val))
  [] me.pc = "ms4" -> R(sh, IF me.cur.ts > 0 THEN [me EXCEPT !.pc = "ms5"] ELSE AfterStats(me),
                        Ev("st_last", "store", 0, 0))                         \* wall clock, value not modelled
  [] me.pc = "ms5" -> R(sh, AfterStats(me), Ev("st_wait", "fetch_add", 0, 0)) \* wall clock
  [] me.pc = "mh" -> R([sh EXCEPT !.hid = @ - me.res.hr], [me EXCEPT !.pc = "mv2"],
                       Ev("hid", "fetch_sub", me.res.hr, sh.hid))
  [] me.pc = "mv2" -> R([sh EXCEPT !.vis = @ + me.res.hr], [me EXCEPT !.pc = "mi"],
                        Ev("vis", "fetch_add", me.res.hr, sh.vis))
  [] me.pc = "mi" -> R([sh EXCEPT !.qmap[me.id] = me.res.upd], [me EXCEPT !.pc = "mt"],
                       Ev("map", "insert", me.res.upd, sh.qmap[me.id]))
  [] me.pc = "mt" -> R([sh EXCEPT !.tickets = Append(@, me.id)], LoopHead(me),
                       Ev("tickets", "push", me.id, 0))                        \* always the tail (D5)
  [] me.pc = "mc" -> R([sh EXCEPT !.cnt = @ - 1],
                       IF me.cur.kind \in HiddenKinds /\ me.cur.hid > 0 /\ me.res.hr = 0
                       THEN [me EXCEPT !.pc = "mh2"] ELSE LoopHead(me),
                       Ev("cnt", "fetch_sub", 1, sh.cnt))
  [] me.pc = "mh2" -> R([sh EXCEPT !.hid = @ - me.cur.hid], LoopHead(me),
                        Ev("hid", "fetch_sub", me.cur.hid, sh.hid))
  [] me.pc = "sa_i" -> LET o == Head(me.aside) IN
                       R([sh EXCEPT !.qmap[o.id] = o], [me EXCEPT !.pc = "sa_t"],
                         Ev("map", "insert", o, sh.qmap[o.id]))
  [] me.pc = "sa_t" -> LET o == Head(me.aside) IN
                       R([sh EXCEPT !.tickets = Append(@, o.id)], MatchFinish([me EXCEPT !.aside = Tail(@)]),
                         Ev("tickets", "push", o.id, 0))

  (* ---- update_order, removing variants: level.rs:280-311, 367-397, 399-453 ---- *)
  [] me.pc = "cr" ->
       LET o == sh.qmap[me.id] IN
       IF ~IsOrder(o) THEN R(sh, Return(me, RetNone), Ev("map", "remove", me.id, NoOrder))
       ELSE R([sh EXCEPT !.qmap[me.id] = NoOrder], [me EXCEPT !.cur = o, !.pc = "cv"],
              Ev("map", "remove", me.id, o))
  [] me.pc = "cv" -> R([sh EXCEPT !.vis = @ - me.cur.vis], [me EXCEPT !.pc = "ch"],
                       Ev("vis", "fetch_sub", me.cur.vis, sh.vis))
  [] me.pc = "ch" -> R([sh EXCEPT !.hid = @ - Hidden(me.cur)], [me EXCEPT !.pc = "cc"],
                       Ev("hid", "fetch_sub", Hidden(me.cur), sh.hid))
  [] me.pc = "cc" -> R([sh EXCEPT !.cnt = @ - 1], [me EXCEPT !.pc = "cs"],
                       Ev("cnt", "fetch_sub", 1, sh.cnt))
  [] me.pc = "cs" -> R([sh EXCEPT !.st.removed = @ + 1], Return(me, RetSome(me.cur)),
                       Ev("st_removed", "fetch_add", 1, sh.st.removed))

  (* ---- update_order, same-price quantity amendment: level.rs:313-365 ---- *)
  [] me.pc = "ug" ->
       LET o == sh.qmap[me.id] IN
       IF ~IsOrder(o) THEN R(sh, Return(me, RetNone), Ev("map", "get", me.id, NoOrder))
       ELSE R(sh, [me EXCEPT !.found = o, !.pc = "ur"], Ev("map", "get", me.id, o))
  [] me.pc = "ur" ->
       LET o == sh.qmap[me.id] IN
       IF ~IsOrder(o) THEN R(sh, Return(me, RetNone), Ev("map", "remove", me.id, NoOrder))
       ELSE LET nw  == WithReducedQuantity(o, c.q)
                src == IF DevAmendStaleLookup THEN me.found ELSE o
                ov  == src.vis
                oh  == Hidden(src)
                npc == IF ov # nw.vis THEN "uv" ELSE IF oh # Hidden(nw) THEN "uh" ELSE "ui"
            IN R([sh EXCEPT !.qmap[me.id] = NoOrder],
                 [me EXCEPT !.cur = o, !.nw = nw, !.ov = ov, !.oh = oh, !.pc = npc],
                 Ev("map", "remove", me.id, o))
  [] me.pc = "uv" ->
       LET npc == IF me.oh # Hidden(me.nw) THEN "uh" ELSE "ui" IN
       IF me.nw.vis > me.ov
       THEN R([sh EXCEPT !.vis = @ + (me.nw.vis - me.ov)], [me EXCEPT !.pc = npc],
              Ev("vis", "fetch_add", me.nw.vis - me.ov, sh.vis))
       ELSE R([sh EXCEPT !.vis = @ - (me.ov - me.nw.vis)], [me EXCEPT !.pc = npc],
              Ev("vis", "fetch_sub", me.ov - me.nw.vis, sh.vis))
  [] me.pc = "uh" ->
       IF Hidden(me.nw) > me.oh
       THEN R([sh EXCEPT !.hid = @ + (Hidden(me.nw) - me.oh)], [me EXCEPT !.pc = "ui"],
              Ev("hid", "fetch_add", Hidden(me.nw) - me.oh, sh.hid))
       ELSE R([sh EXCEPT !.hid = @ - (me.oh - Hidden(me.nw))], [me EXCEPT !.pc = "ui"],
              Ev("hid", "fetch_sub", me.oh - Hidden(me.nw), sh.hid))
  [] me.pc = "ui" -> R([sh EXCEPT !.qmap[me.id] = me.nw], [me EXCEPT !.pc = "ut"],
                       Ev("map", "insert", me.nw, sh.qmap[me.id]))
  [] me.pc = "ut" -> R([sh EXCEPT !.tickets = Append(@, me.id)], Return(me, RetSome(me.nw)),
                       Ev("tickets", "push", me.id, 0))   \* the original ticket stays where it was

  (* ---- readers ---- *)
  [] me.pc = "r1" -> R(sh, [me EXCEPT !.pc = "r2", !.lv = sh.vis], Ev("vis", "load", 0, sh.vis))
  [] me.pc = "r2" -> R(sh, [me EXCEPT !.pc = "r3", !.lh = sh.hid], Ev("hid", "load", 0, sh.hid))
  [] me.pc = "r3" -> R(sh, Return(me, [t |-> "read", vis |-> me.lv, hid |-> me.lh, cnt |-> sh.cnt]),
                       Ev("cnt", "load", 0, sh.cnt))
  [] me.pc = "l1" -> R(sh, Return(me, [t |-> "list", orders |-> MapSeq(sh.qmap)]),
                       Ev("map", "iter", 0, 0))
  [] me.pc = "s1" -> R(sh, [me EXCEPT !.pc = "s2", !.lv = sh.vis], Ev("vis", "load", 0, sh.vis))
  [] me.pc = "s2" -> R(sh, [me EXCEPT !.pc = "s3", !.lh = sh.hid], Ev("hid", "load", 0, sh.hid))
  [] me.pc = "s3" -> R(sh, [me EXCEPT !.pc = "s4", !.lc = sh.cnt], Ev("cnt", "load", 0, sh.cnt))
  [] me.pc = "s4" -> R(sh, Return(me, [t |-> "snapshot", vis |-> me.lv, hid |-> me.lh, cnt |-> me.lc,
                                        orders |-> MapSeq(sh.qmap)]),
                       Ev("map", "iter", 0, 0))

StatPCs == {"a4", "ms1", "ms2", "ms3", "ms4", "ms5", "cs"}

(* With StatsMicro = FALSE the statistics operations that follow a step are folded
   into it (they commute with everything but statistics reads). *)
RECURSIVE FoldStats(_)
FoldStats(r) ==
  IF StatsMicro \/ r.me.pc \notin StatPCs THEN r
  ELSE LET n == Step1(r.sh, r.me) IN FoldStats(R(IF StatsCount THEN n.sh ELSE r.sh, n.me, r.ev))

Step(sh, me) == FoldStats(Step1(sh, me))

(* Macro grain: run the thread's current call to completion.  Out of fuel = "hang". *)
RECURSIVE RunFrom(_, _, _)
RunFrom(sh, me, fuel) ==
  IF me.pc = "idle" THEN [sh |-> sh, me |-> me, hang |-> FALSE]
  ELSE IF fuel = 0 THEN [sh |-> sh, me |-> me, hang |-> TRUE]
  ELSE LET n == Step(sh, me) IN RunFrom(n.sh, n.me, fuel - 1)

RunCall(sh, c, fuel) == RunFrom(sh, Begin(IdleLocal, c), fuel)

-----------------------------------------------------------------------------
(***************************************************************************)
(* GHOST STATE, driven by events only (call / op / ret), never by model    *)
(* internals.                                                              *)
(*                                                                         *)
(*  cop[t]        class of the call thread t is in ("idle" if none)        *)
(*  cid[t]        the id that call targets (0 if none)                     *)
(*  held[t]       orders t has taken out of the map and not yet put back   *)
(*                or counted out: sequence of [o, c] (c = consumed)        *)
(*  lastRm[t]     id of t's latest successful map.remove                   *)
(*  pushing[t]    id t has inserted into the map, ticket push pending      *)
(*  popped[t]     id whose ticket t has taken, map.remove pending          *)
(*  cur[t]        id of the ticket t took last (the maker a matcher is     *)
(*                working on)                                              *)
(*  supplied/executed/back/disc[id]   cumulative quantity accounting       *)
(*  everSup       upper bound for every aggregate: total ever supplied     *)
(*  everCnt       number of orders ever added                              *)
(*  issued        transaction ids returned so far (sequence)               *)
(*  nAdd/nRem/qtyX   what the statistics should say                        *)
(*  resting[t]    C13: target of t's cancel/amend was resting at the call  *)
(*                and nobody has taken it out since                        *)
(*  pmiss         C13: pending not-found answers <<id, holder>> given      *)
(*                while `holder` had the order out of the map              *)
(*  gone[id]      a removal handed id to its caller and it was not         *)
(*                added again since                                        *)
(*  kf            known-finding tags observed                              *)
(*  bad           monitor failures detected at event granularity           *)
(***************************************************************************)
ZeroIds == [i \in Ids |-> 0]

Class(c) == CASE c.op = "add" -> "add" [] c.op = "match" -> "match"
              [] IsErrorCall(c) -> "err" [] IsRemovalCall(c) -> "remove"
              [] IsAmendCall(c) -> "amend" [] OTHER -> "ro"
CallTarget(c) == IF Class(c) \in {"remove", "amend"} THEN c.id ELSE 0

GhostInit(Threads, qm) ==
  [cop |-> [t \in Threads |-> "idle"], cid |-> [t \in Threads |-> 0],
   held |-> [t \in Threads |-> <<>>], lastRm |-> [t \in Threads |-> 0],
   vexec |-> [t \in Threads |-> ZeroIds],
   pushing |-> [t \in Threads |-> 0], popped |-> [t \in Threads |-> 0], cur |-> [t \in Threads |-> 0],
   supplied |-> [i \in Ids |-> IF IsOrder(qm[i]) THEN Total(qm[i]) ELSE 0],
   executed |-> ZeroIds, back |-> ZeroIds, disc |-> ZeroIds,
   everSup |-> SumVis(qm) + SumHid(qm), everCnt |-> Cardinality(Live(qm)),
   issued |-> <<>>, nAdd |-> 0, nRem |-> 0, qtyX |-> 0,
   resting |-> [t \in Threads |-> FALSE], pmiss |-> {},
   gone |-> [i \in Ids |-> FALSE],
   kf |-> {}, bad |-> {}]

HeldIds(gh, t) == {gh.held[t][k].o.id : k \in DOMAIN gh.held[t]}
HeldBy(gh, i)  == {t \in DOMAIN gh.held : i \in HeldIds(gh, t)}
HeldEntry(gh, t, i) == gh.held[t][CHOOSE k \in DOMAIN gh.held[t] : gh.held[t][k].o.id = i]
DropHeld(h, i) == SelectSeq(h, LAMBDA e : e.o.id # i)

(* qm is the OBSERVED map at the moment of the call. *)
GhostCall(gh, t, c, qm) ==
  LET tgt == CallTarget(c) IN
  [gh EXCEPT !.cop[t] = Class(c), !.cid[t] = tgt,
             !.resting[t] = (tgt \in Ids /\ IsOrder(qm[tgt])),
             !.nAdd = IF c.op = "add" THEN @ + 1 ELSE @,
             !.everSup = CASE c.op = "add" -> @ + Total(c.o)
                           [] Class(c) = "amend" -> @ + c.q      \* an amendment may supply up to q more
                           [] OTHER -> @,
             !.everCnt = IF c.op = "add" THEN @ + 1 ELSE @]

(* Someone took id i out of the map: pending cancels/amends of i no longer face an
   untouched resting order. *)
Touch(gh, i) == [gh EXCEPT !.resting = [t \in DOMAIN @ |-> IF gh.cid[t] = i THEN FALSE ELSE @[t]]]
(* a removal by thread r excuses the not-found of every OTHER call on that id, never r's own: a call that
   took its target out of the book itself has found it (S140: amend-to-zero cancels and then answers not-found) *)
TouchBy(gh, r, i) == [gh EXCEPT !.resting = [t \in DOMAIN @ |-> IF gh.cid[t] = i /\ t # r THEN FALSE ELSE @[t]]]

(* holder h has put id i back: every not-found given while it was out was wrong (D8) *)
Reinserted(gh, h, i) ==
  [gh EXCEPT !.kf = IF <<i, h>> \in gh.pmiss THEN @ \cup {"KF-C13-1"} ELSE @,
             !.pmiss = @ \ {<<i, h>>}]

GhostOp(gh, t, e) ==
  LET cls == gh.cop[t] IN
  CASE e.o = "map" /\ e.op = "remove" /\ IsOrder(e.r) /\ e.v \in Ids ->
         LET g1 == TouchBy(gh, t, e.v)
             g2 == [g1 EXCEPT !.lastRm[t] = e.v, !.popped[t] = 0,
                              !.gone[e.v] = IF cls = "remove" THEN TRUE ELSE @,     \* the canceller owns it from here on
                              !.bad = IF gh.gone[e.v] THEN @ \cup {IF cls = "match" THEN "traded-after-cancel" ELSE "handed-out-twice"} ELSE @]
         IN IF cls \in {"match", "amend"}
            THEN [g2 EXCEPT !.held[t] = Append(@, [o |-> e.r])]
            ELSE g2
    [] e.o = "map" /\ e.op \in {"remove", "get"} /\ ~IsOrder(e.r) ->
         LET g1 == [gh EXCEPT !.popped[t] = 0] IN
         IF cls \in {"remove", "amend"} /\ e.v = gh.cid[t]
         THEN (* decisive miss of a cancel / amend: remember who has the order out right now *)
              [g1 EXCEPT !.pmiss = @ \cup {<<e.v, h>> : h \in HeldBy(gh, e.v)}]
         ELSE g1
    [] e.o = "tickets" /\ e.op = "pop" -> [gh EXCEPT !.popped[t] = e.r, !.cur[t] = e.r]
    [] e.o = "tickets" /\ e.op = "push" -> [gh EXCEPT !.pushing[t] = 0]
    [] e.o \in {"vis", "gen"} /\ cls = "match" /\ gh.cur[t] \in Ids /\ gh.gone[gh.cur[t]] /\ gh.cur[t] \notin HeldIds(gh, t) ->
         (* the matcher executes against a maker that a successful cancel has taken *)
         [gh EXCEPT !.bad = @ \cup {"traded-after-cancel"}]
    [] e.o = "map" /\ e.op = "insert" /\ IsOrder(e.v) ->      \* (an unresolvable key carries no order: model drift)
         LET i  == e.v.id
             g1 == [gh EXCEPT !.pushing[t] = i] IN
         IF cls = "add"
         THEN [g1 EXCEPT !.supplied[i] = @ + Total(e.v), !.gone[i] = FALSE,
                         !.bad = IF IsOrder(e.r) THEN @ \cup {"dup-insert"} ELSE @]
         ELSE IF i \in HeldIds(gh, t)
         THEN LET h == HeldEntry(gh, t, i)
                  g2 == Reinserted([g1 EXCEPT !.held[t] = DropHeld(@, i)], t, i) IN
              IF cls = "match"
              THEN (* the matcher puts a visited maker back: what the visit took out of it is what it must
                      report as executed against it (settled at the return of the call; the ghost does not
                      rely on which counter updates the code performs in between) *)
                   LET d == Total(h.o) - Total(e.v) IN
                   [g2 EXCEPT !.vexec[t][i] = @ + d,
                              !.bad = IF d < 0 THEN @ \cup {"visit-not-conserved"} ELSE @]
              ELSE [g2 EXCEPT !.supplied[i] = @ + Total(e.v) - Total(h.o)]
         ELSE [g1 EXCEPT !.bad = @ \cup {"insert-of-unheld"}]
    [] OTHER -> gh

GhostRet(gh, t, r) ==
  LET g0  == [gh EXCEPT !.cop[t] = "idle", !.cid[t] = 0, !.resting[t] = FALSE]
      cls == gh.cop[t] IN
  CASE r.t = "match" ->
         LET txs == r.txs
             ex  == [j \in Ids |-> gh.executed[j] + SumSeq([k \in DOMAIN txs |-> IF txs[k].maker = j THEN txs[k].qty ELSE 0])]
             (* settlement of the visits of this call.  X[j]: executed against j according to the result;
                vexec: what the visits that ended in a re-insert took out of j.  A maker still held at the
                return was not put back: it left the book in its last visit, which executed the rest. *)
             X     == [j \in Ids |-> SumSeq([k \in DOMAIN txs |-> IF txs[k].maker = j THEN txs[k].qty ELSE 0])]
             L     == HeldIds(gh, t)
             clast == [j \in Ids |-> X[j] - gh.vexec[t][j]]
             left  == [j \in Ids |-> IF j \in L THEN Total(HeldEntry(gh, t, j).o) - clast[j] ELSE 0]
             nb    == (IF \E j \in Ids \ L : clast[j] # 0 THEN {"visit-not-conserved"} ELSE {})
                      \cup (IF \E j \in L : clast[j] < 0 \/ left[j] < 0 THEN {"visit-not-conserved"} ELSE {})
                      \cup (IF \E j \in L : left[j] # 0 /\ ~(HeldEntry(gh, t, j).o.kind = "Reserve" /\ left[j] = HeldEntry(gh, t, j).o.hid)
                            THEN {"quantity-dropped"} ELSE {})
         IN [g0 EXCEPT !.executed = ex,
                       !.issued = @ \o [k \in DOMAIN txs |-> txs[k].txid],
                       !.qtyX = @ + SumSeq([k \in DOMAIN txs |-> txs[k].qty]),
                       !.disc = [j \in Ids |-> @[j] + left[j]],
                       !.held[t] = <<>>, !.vexec[t] = ZeroIds,
                       !.pmiss = {p \in @ : ~(p[2] = t /\ p[1] \in L)},   \* they are gone: those not-founds were truthful
                       !.bad = @ \cup nb]
    [] r.t = "some" /\ cls = "remove" ->
         (* a removal handed the order to its caller *)
         [g0 EXCEPT !.back[r.o.id] = @ + Total(r.o), !.nRem = @ + 1, !.gone[r.o.id] = TRUE]
    [] r.t = "some" /\ cls = "amend" ->
         [g0 EXCEPT !.bad = IF gh.held[t] # <<>> THEN @ \cup {"order-lost-by-amend"} ELSE @]
    [] r.t = "none" /\ cls \in {"remove", "amend"} ->
         (* not-found although the target rested untouched for the whole call => violation *)
         [g0 EXCEPT !.bad = IF gh.resting[t] THEN @ \cup {"notfound-but-resting"} ELSE @]
    [] OTHER -> g0

-----------------------------------------------------------------------------
(* MONITORS: the observable statements of the properties, over the observed shared
   state `ob` = [vis, hid, cnt, qmap, tickets, st, gen] and the ghost. *)

Quiescent(gh) == \A t \in DOMAIN gh.cop : gh.cop[t] = "idle"

\* C01: aggregates equal the sums over the resting orders (at quiescence)
Mon_C01(ob) == /\ ob.vis = SumVis(ob.qmap) /\ ob.hid = SumHid(ob.qmap)
               /\ ob.cnt = Cardinality(Live(ob.qmap))
               /\ ob.vis >= 0 /\ ob.hid >= 0 /\ ob.cnt >= 0

\* C03: conservation per id (at quiescence)
BadC03 == {"visit-not-conserved", "quantity-dropped", "order-lost-by-match", "order-lost-by-amend",
           "handed-out-twice", "insert-of-unheld", "dup-insert"}
Mon_C03(ob, gh) ==
  /\ Mon_C01(ob)
  /\ \A i \in Ids : gh.supplied[i] = gh.executed[i] + gh.back[i] + gh.disc[i]
                                       + (IF IsOrder(ob.qmap[i]) THEN Total(ob.qmap[i]) ELSE 0)
  /\ \A i \in Ids : gh.executed[i] >= 0 /\ gh.back[i] >= 0 /\ gh.disc[i] >= 0
  /\ gh.bad \cap BadC03 = {}

\* C08 (every state): a resting order is covered by a ticket, or a thread is inside push
\* for it, or a thread has just taken its ticket and is about to take the order.
Mon_C08_cover(ob, gh) ==
  \A i \in Live(ob.qmap) : \/ i \in Range(ob.tickets)
                           \/ \E t \in DOMAIN gh.pushing : gh.pushing[t] = i \/ gh.popped[t] = i

\* C08 after the draining match: nothing displayed is left, aggregates describe the rest,
\* every order was handed out exactly once
Mon_C08_drained(ob, gh) == /\ Mon_C01(ob) /\ \A i \in Live(ob.qmap) : ob.qmap[i].vis = 0
                           /\ gh.bad \cap BadC03 = {}

\* C12: every instant
Mon_C12(ob, gh) == /\ 0 <= ob.vis /\ ob.vis <= gh.everSup
                   /\ 0 <= ob.hid /\ ob.hid <= gh.everSup
                   /\ 0 <= ob.cnt /\ ob.cnt <= gh.everCnt

\* C13
Mon_C13(gh) == gh.bad \cap {"notfound-but-resting", "traded-after-cancel", "handed-out-twice"} = {}

\* C14: ids issued so far are pairwise distinct
Mon_C14(gh) == \A a, b \in DOMAIN gh.issued : a # b => gh.issued[a] # gh.issued[b]

\* C15 (at quiescence)
Mon_C15(ob, gh) == /\ ob.st.added = gh.nAdd /\ ob.st.removed = gh.nRem
                   /\ ob.st.qty = gh.qtyX /\ ob.st.val = gh.qtyX * Price

=============================================================================
