#!/bin/sh
# usage: seedtest.sh <patch.diff> <prop>... ; applies the patch to /repo, runs the quick checks, undoes it.
# The evidence files of the unchanged tree are saved and restored (a seeded run must not overwrite them).
patch=$1; shift
cd /verif
rm -rf /verif/work/evidence.keep; cp -r /verif/evidence /verif/work/evidence.keep
git -C /repo apply $patch || { echo "patch does not apply"; exit 2; }
for p in "$@"; do
  ./check $p --tier quick > /verif/work/seedtest_$p.log 2>&1; rc=$?
  echo "=== $p rc=$rc : $(grep -E '^(OK|VIOLATION|TOOL|DRIFT)' /verif/work/seedtest_$p.log | head -1 | cut -c1-120) | $(grep -E '^  ' /verif/work/seedtest_$p.log | head -1 | cut -c1-140)"
done
git -C /repo checkout -- .
git -C /repo status --short | head -3
rm -rf /verif/evidence; mv /verif/work/evidence.keep /verif/evidence
find /verif/replays -name '*.json' -delete
