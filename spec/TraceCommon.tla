----------------------------- MODULE TraceCommon -----------------------------
(* Shared by the trace specifications: reading the ND-JSON recording and mapping the
   harness' JSON forms onto the records of Level.tla. *)
EXTENDS Level, Json, IOUtils

Rec == ndJsonDeserialize(IOEnv.TRACE)

Has(r, f) == f \in DOMAIN r
GenericRO == {"display", "serialize", "stats", "snapjson"}   \* read-only calls validated generically

QmapOf(os) == [i \in Ids |-> IF \E k \in DOMAIN os : os[k].id = i
                             THEN os[CHOOSE k \in DOMAIN os : os[k].id = i] ELSE NoOrder]

ObsOf(st) == [vis |-> st.vis, hid |-> st.hid, cnt |-> st.cnt, qmap |-> QmapOf(st.orders),
              tickets |-> st.tickets, st |-> st.st, gen |-> st.gen]

(* what the public read API reports must be the observed state (C01 observe_at) and the total
   is visible plus hidden *)
ApiOk(st) ==
  LET a == st.api IN
  /\ a.vis = st.vis /\ a.hid = st.hid /\ a.cnt = st.cnt /\ a.tot = st.vis + st.hid
  /\ a.sadded = st.st.added /\ a.sremoved = st.st.removed /\ a.sqty = st.st.qty /\ a.sval = st.st.val
(* C10, third sentence: the listing shows each resting order exactly once, in non-decreasing
   timestamp order *)
ListOk(st) ==
  LET a == st.api IN
  /\ Len(a.list) = Len(st.orders)
  /\ \A k \in DOMAIN a.list : \E j \in DOMAIN st.orders : st.orders[j] = a.list[k]
  /\ \A j, k \in DOMAIN a.list : j < k => a.list[j].ts <= a.list[k].ts /\ a.list[j].id # a.list[k].id

RetEq(m, r) ==
  /\ m.t = r.t
  /\ CASE r.t = "match" -> /\ m.taker = r.taker /\ m.rem = r.rem /\ m.complete = r.complete
                           /\ m.txs = r.txs /\ m.filled = r.filled /\ m.exe = r.exe
       [] r.t = "some"  -> m.o = r.o
       [] r.t = "read"  -> m.vis = r.vis /\ m.hid = r.hid /\ m.cnt = r.cnt
       [] r.t = "list"  -> Len(m.orders) = Len(r.orders) /\ Range(m.orders) = Range(r.orders)
       [] r.t = "snapshot" -> /\ m.vis = r.vis /\ m.hid = r.hid /\ m.cnt = r.cnt
                              /\ Len(m.orders) = Len(r.orders) /\ Range(m.orders) = Range(r.orders)
       [] OTHER -> TRUE
=============================================================================
