----------------------------- MODULE QueueSeqMC -----------------------------
(* Every single-threaded sequence of queue calls up to a bounded length (C19). *)
EXTENDS Queue, Json
CONSTANTS MaxLen, EmitReplays, EmitEdges
VARIABLES sh, g, chk, lastkf, hist
vars == <<sh, g, chk, lastkf, hist>>
View == <<sh, g, chk, lastkf, Len(hist)>>

QO(i, v, ts) == [id |-> i, kind |-> "Standard", vis |-> v, hid |-> 0, thr |-> 0, amt |-> -1, auto |-> FALSE,
                 ts |-> ts, side |-> "Buy", px |-> 100, par |-> "GTC"]

Calls(s) ==
  {[op |-> "push", o |-> QO(i, v, 4 - i)] : i \in Ids \ QLive(s.qmap), v \in {1, 2}}   \* ids pushed once or re-pushed after removal
  \cup {[op |-> "pop"], [op |-> "len"], [op |-> "is_empty"], [op |-> "to_vec"]}
  \cup {[op |-> "find", id |-> i] : i \in Ids} \cup {[op |-> "remove", id |-> i] : i \in Ids}

Init == sh = QEmpty /\ g = QGhostInit(<<>>) /\ chk = {} /\ lastkf = {} /\ hist = <<>>
Next == /\ Len(hist) < MaxLen
        /\ \E c \in Calls(sh) :
             LET run == QRun(sh, c, 50)
                 r   == run.me.ret
                 v   == QVerdict(g, c, r, TRUE, QHasStale(sh))
             IN /\ sh' = run.sh /\ g' = QGhostNext(g, c, r)
                /\ chk' = (v \cap {"C19"}) \cup (IF run.hang THEN {"C19"} ELSE {})
                /\ lastkf' = v \ {"C19"}
                /\ hist' = Append(hist, c)
                /\ (EmitEdges => PrintT(<<"EDGE", ToJson([calls |-> Append(hist, c), final |-> [orders |-> QMapSeq(run.sh.qmap), tickets |-> run.sh.tickets]])>>))
Spec == Init /\ [][Next]_vars
Inv_C19 == chk = {}
Inv_C19raw == lastkf = {}     \* expected to FAIL: stale-ticket witness (D6)
Inv_Struct == \A i \in QLive(sh.qmap) : i \in Range(sh.tickets)
Inv_Emit == (EmitReplays /\ Len(hist) = MaxLen) => PrintT(<<"REPLAY", ToJson([calls |-> hist, final |-> [orders |-> QMapSeq(sh.qmap), tickets |-> sh.tickets]])>>)
MCIds == 1..3
=============================================================================
