-------------------------------- MODULE Queue --------------------------------
(***************************************************************************)
(* The exported OrderQueue (src/price_level/order_queue.rs) on its own:    *)
(*   qmap     DashMap id -> order ("map")                                  *)
(*   tickets  SegQueue of ids     ("tickets")                              *)
(* Same conventions as Level.tla: QStep1 performs exactly one operation on *)
(* one shared object plus the thread-local computation up to the next one  *)
(* and returns the event the shim reports; QRun runs a call to completion. *)
(*                                                                         *)
(* Calls:  push(o) | pop | find(id) | remove(id) | len | is_empty | to_vec *)
(***************************************************************************)
EXTENDS Orders, SequencesExt, FiniteSetsExt, Functions, TLC

CONSTANT Ids

QLive(qm)   == {i \in DOMAIN qm : IsOrder(qm[i])}
QMapSeq(qm) == LET ids == SetToSortSeq(QLive(qm), <) IN [k \in DOMAIN ids |-> qm[ids[k]]]
QEmptyMap   == [i \in Ids |-> NoOrder]
QEmpty      == [qmap |-> QEmptyMap, tickets |-> <<>>]

QFrom(os) ==   \* from_vec / From<Vec> / FromStr / Deserialize: push in input order
  [qmap |-> [i \in Ids |-> IF \E k \in DOMAIN os : os[k].id = i
                           THEN os[CHOOSE k \in DOMAIN os : os[k].id = i /\ \A j \in DOMAIN os : os[j].id = i => j <= k]
                           ELSE NoOrder],
   tickets |-> [k \in DOMAIN os |-> os[k].id]]

QEv(o, op, v, r) == [o |-> o, op |-> op, v |-> v, r |-> r]
QIdle == [pc |-> "idle", call |-> [op |-> "none"], id |-> 0, ret |-> [t |-> "nil"]]
QReturn(me, r) == [me EXCEPT !.pc = "idle", !.ret = r]
QR(sh, me, ev) == [sh |-> sh, me |-> me, ev |-> ev]

QBegin(me, c) ==
  LET m == [QIdle EXCEPT !.call = c] IN
  CASE c.op = "push"     -> [m EXCEPT !.pc = "qi"]
    [] c.op = "pop"      -> [m EXCEPT !.pc = "qp"]
    [] c.op = "find"     -> [m EXCEPT !.pc = "qg", !.id = c.id]
    [] c.op = "remove"   -> [m EXCEPT !.pc = "qx", !.id = c.id]
    [] c.op = "len"      -> [m EXCEPT !.pc = "ql"]
    [] c.op = "is_empty" -> [m EXCEPT !.pc = "qe"]
    [] c.op = "to_vec"   -> [m EXCEPT !.pc = "qv"]

QStep1(sh, me) ==
  LET c == me.call IN
  CASE me.pc = "qi" -> QR([sh EXCEPT !.qmap[c.o.id] = c.o], [me EXCEPT !.pc = "qt"],
                          QEv("map", "insert", c.o, sh.qmap[c.o.id]))
    [] me.pc = "qt" -> QR([sh EXCEPT !.tickets = Append(@, c.o.id)], QReturn(me, [t |-> "unit"]),
                          QEv("tickets", "push", c.o.id, 0))
    [] me.pc = "qp" ->
         IF sh.tickets = <<>> THEN QR(sh, QReturn(me, [t |-> "none"]), QEv("tickets", "pop", 0, 0))
         ELSE QR([sh EXCEPT !.tickets = Tail(@)], [me EXCEPT !.pc = "qr", !.id = Head(sh.tickets)],
                 QEv("tickets", "pop", 0, Head(sh.tickets)))
    [] me.pc = "qr" ->
         LET o == sh.qmap[me.id] IN
         IF IsOrder(o) THEN QR([sh EXCEPT !.qmap[me.id] = NoOrder], QReturn(me, [t |-> "some", o |-> o]),
                               QEv("map", "remove", me.id, o))
         ELSE QR(sh, [me EXCEPT !.pc = "qp"], QEv("map", "remove", me.id, NoOrder))   \* stale ticket, next
    [] me.pc = "qg" ->
         LET o == sh.qmap[me.id] IN
         QR(sh, QReturn(me, IF IsOrder(o) THEN [t |-> "some", o |-> o] ELSE [t |-> "none"]),
            QEv("map", "get", me.id, o))
    [] me.pc = "qx" ->
         LET o == sh.qmap[me.id] IN
         IF IsOrder(o) THEN QR([sh EXCEPT !.qmap[me.id] = NoOrder], QReturn(me, [t |-> "some", o |-> o]),
                               QEv("map", "remove", me.id, o))
         ELSE QR(sh, QReturn(me, [t |-> "none"]), QEv("map", "remove", me.id, NoOrder))
    [] me.pc = "ql" -> QR(sh, QReturn(me, [t |-> "int", n |-> Cardinality(QLive(sh.qmap))]), QEv("map", "len", 0, 0))
    [] me.pc = "qe" -> QR(sh, QReturn(me, [t |-> "bool", b |-> (QLive(sh.qmap) = {})]), QEv("map", "is_empty", 0, 0))
    [] me.pc = "qv" -> QR(sh, QReturn(me, [t |-> "list", orders |-> QMapSeq(sh.qmap)]), QEv("map", "iter", 0, 0))

RECURSIVE QRunFrom(_, _, _)
QRunFrom(sh, me, fuel) ==
  IF me.pc = "idle" THEN [sh |-> sh, me |-> me, hang |-> FALSE]
  ELSE IF fuel = 0 THEN [sh |-> sh, me |-> me, hang |-> TRUE]
  ELSE LET n == QStep1(sh, me) IN QRunFrom(n.sh, n.me, fuel - 1)
QRun(sh, c, fuel) == QRunFrom(sh, QBegin(QIdle, c), fuel)

-----------------------------------------------------------------------------
(***************************************************************************)
(* Property C19, per call, single-threaded.  `fifo` is the ideal queue:    *)
(* the ids currently queued, in push order (append on push, delete on pop  *)
(* and on remove).  `content[id]` is the order pushed under that id.       *)
(***************************************************************************)
QWithout(s, i) == SelectSeq(s, LAMBDA x : x # i)
QCount(s, i)   == Cardinality({k \in DOMAIN s : s[k] = i})

QGhostInit(os) == [fifo |-> [k \in DOMAIN os |-> os[k].id], content |-> QFrom(os).qmap]

QGhostNext(g, c, r) ==
  CASE c.op = "push" -> [g EXCEPT !.fifo = Append(QWithout(@, c.o.id), c.o.id), !.content[c.o.id] = c.o]
    [] c.op = "pop" /\ r.t = "some" -> [g EXCEPT !.fifo = QWithout(@, r.o.id), !.content[r.o.id] = NoOrder]
    [] c.op = "remove" /\ r.t = "some" -> [g EXCEPT !.fifo = QWithout(@, r.o.id), !.content[r.o.id] = NoOrder]
    [] OTHER -> g

\* result: {} | {"KF-C19-1"} | {"C19"}.  `stale` = the pre-state held a ticket of an id
\* that had been removed by id (what makes a re-pushed id come out early, deviation D6).
QVerdict(g, c, r, predicted, stale) ==
  CASE c.op = "pop" ->
         IF g.fifo = <<>> THEN (IF r.t = "none" THEN {} ELSE {"C19"})
         ELSE IF r.t = "some" /\ r.o = g.content[Head(g.fifo)] THEN {}
         ELSE IF r.t = "some" /\ r.o.id \in Range(g.fifo) /\ r.o = g.content[r.o.id] /\ predicted /\ stale THEN {"KF-C19-1"}
         ELSE {"C19"}
    [] c.op \in {"find", "remove"} ->
         IF c.id \in Range(g.fifo) THEN (IF r.t = "some" /\ r.o = g.content[c.id] THEN {} ELSE {"C19"})
         ELSE (IF r.t = "none" THEN {} ELSE {"C19"})
    [] c.op = "len" -> IF r.t = "int" /\ r.n = Len(g.fifo) THEN {} ELSE {"C19"}
    [] c.op = "is_empty" -> IF r.t = "bool" /\ r.b = (g.fifo = <<>>) THEN {} ELSE {"C19"}
    [] c.op = "to_vec" ->
         IF /\ r.t = "list" /\ Len(r.orders) = Len(g.fifo)
            /\ {r.orders[k] : k \in DOMAIN r.orders} = {g.content[i] : i \in Range(g.fifo)}
         THEN {} ELSE {"C19"}
    [] OTHER -> {}

QHasStale(sh) == \E k \in DOMAIN sh.tickets : ~IsOrder(sh.qmap[sh.tickets[k]]) \/ QCount(sh.tickets, sh.tickets[k]) >= 2

-----------------------------------------------------------------------------
(* Concurrent use (C08, second half): every order handed to the queue is handed out
   exactly once.  Event-driven ghost. *)
QConcInit(Threads, sh) ==
  [cop |-> [t \in Threads |-> "idle"], pushing |-> [t \in Threads |-> 0], popped |-> [t \in Threads |-> 0],
   pushed |-> [i \in Ids |-> IF IsOrder(sh.qmap[i]) THEN 1 ELSE 0], handed |-> [i \in Ids |-> 0], bad |-> {}]

QConcCall(g, t, c) == [g EXCEPT !.cop[t] = c.op]
QConcOp(g, t, e) ==
  \* (an insert whose key the observer cannot resolve to an order - a map keyed by something else than the order id -
  \*  carries no order: it is model drift, not something the ghost can account)
  CASE e.o = "map" /\ e.op = "insert" /\ IsOrder(e.v) /\ e.v.id \in Ids -> [g EXCEPT !.pushing[t] = e.v.id, !.pushed[e.v.id] = @ + 1]
    [] e.o = "tickets" /\ e.op = "push" -> [g EXCEPT !.pushing[t] = 0]
    [] e.o = "tickets" /\ e.op = "pop" -> [g EXCEPT !.popped[t] = e.r]
    [] e.o = "map" /\ e.op = "remove" -> [g EXCEPT !.popped[t] = 0]
    [] OTHER -> g
QConcRet(g, t, r) ==
  LET g0 == [g EXCEPT !.cop[t] = "idle"] IN
  IF r.t = "some" /\ g.cop[t] \in {"pop", "remove"}
  THEN [g0 EXCEPT !.handed[r.o.id] = @ + 1,
                  !.bad = IF g.handed[r.o.id] + 1 > g.pushed[r.o.id] THEN @ \cup {"handed-out-twice"} ELSE @]
  ELSE g0

QMon_cover(sh, g) ==
  \A i \in QLive(sh.qmap) : \/ i \in Range(sh.tickets)
                            \/ \E t \in DOMAIN g.pushing : g.pushing[t] = i \/ g.popped[t] = i
\* after everything was popped at quiescence: each pushed order was handed out exactly once
QMon_drained(sh, g) == /\ QLive(sh.qmap) = {} /\ g.bad = {}
                       /\ \A i \in Ids : g.handed[i] = g.pushed[i]
=============================================================================
