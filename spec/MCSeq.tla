-------------------------------- MODULE MCSeq --------------------------------
EXTENDS LevelSeqMC
Sh(kd, v, h, thr, amt, au, ts) == [kind |-> kd, vis |-> v, hid |-> h, thr |-> thr, amt |-> amt, auto |-> au, ts |-> ts, side |-> "Buy"]
ShP(kd, v, h, thr, amt, au, ts, dpx) == [kind |-> kd, vis |-> v, hid |-> h, thr |-> thr, amt |-> amt, auto |-> au, ts |-> ts, side |-> "Buy", dpx |-> dpx]
\* one representative per behaviour class, small quantities, zero quantities included
ShapesA == { Sh("Standard", 2, 0, 0, -1, FALSE, 1), Sh("Standard", 0, 0, 0, -1, FALSE, 2),
             Sh("Pegged", 3, 0, 0, -1, FALSE, 1),
             Sh("Iceberg", 1, 2, 0, -1, FALSE, 2), Sh("Iceberg", 0, 1, 0, -1, FALSE, 1),
             Sh("Reserve", 1, 2, 1, 1, TRUE, 1), Sh("Reserve", 2, 2, 0, 0, TRUE, 2),
             Sh("Reserve", 1, 1, 0, -1, FALSE, 1), Sh("Reserve", 2, 3, 2, 2, TRUE, 2),
             Sh("Reserve", 0, 2, 0, 1, TRUE, 1),         \* hidden only: shows nothing, replenishes when reached
             ShP("Standard", 3, 0, 0, -1, FALSE, 2, 1) } \* carries a price other than the level's
ShapesB == { Sh("PostOnly", 2, 0, 0, -1, FALSE, 2), Sh("TrailingStop", 3, 0, 0, -1, FALSE, 1),
             Sh("MarketToLimit", 3, 0, 0, -1, FALSE, 2),
             Sh("Iceberg", 2, 1, 0, -1, FALSE, 1), Sh("Reserve", 1, 3, 1, -1, TRUE, 2),
             ShP("Iceberg", 1, 2, 0, -1, FALSE, 1, -2) }
Ids2 == 1..2
Ids3 == 1..3
=============================================================================
