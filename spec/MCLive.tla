------------------------------- MODULE MCLive -------------------------------
(* Liveness instance of LevelConc: books holding orders with nothing displayed (iceberg with
   display 0, reserve with replenish amount 0) and programs that match against them. *)
EXTENDS LevelConc
O(i, kd, v, h, thr, amt, au) ==
  [id |-> i, kind |-> kd, vis |-> v, hid |-> h, thr |-> thr, amt |-> amt, auto |-> au,
   ts |-> i, side |-> "Buy", px |-> 100, par |-> "GTC"]
M(q) == [op |-> "match", q |-> q, taker |-> 90]
ZeroBook == << O(1, "Iceberg", 0, 2, 0, -1, FALSE), O(2, "Standard", 2, 0, 0, -1, FALSE), O(3, "Reserve", 1, 2, 0, 0, TRUE) >>
LiveScen == <<
  [init |-> ZeroBook, progs |-> << <<M(1)>> >>],
  [init |-> ZeroBook, progs |-> << <<M(5)>> >>],
  [init |-> ZeroBook, progs |-> << <<M(2), M(2)>>, <<M(1)>> >>],
  [init |-> ZeroBook, progs |-> << <<M(4)>>, <<[op |-> "amend", id |-> 2, q |-> 0], [op |-> "cancel", id |-> 1]>> >>]
>>
LiveIds == 1..3
=============================================================================
